// fault.cpp - allocation-failure enumeration (C18).
//
// A scenario is setup / window / check+teardown.  For every scenario the harness first runs it
// with a counting allocator (no failure) to learn N = number of allocation requests inside the
// window, then runs it once per (k in 1..N) x (mode once | from-k-on), each in a forked child.
// Case format:   fault <scenario> <k> <mode 0=once 1=all-after>      (k=0: no failure)
#include "../../vlib/vlib.h"
#include "../../vlib/valloc.h"
#include "../../vlib/vipc.h"
#include <sys/wait.h>
#include <sys/time.h>
#include <sys/prctl.h>
#include <sys/mman.h>
#include <sys/stat.h>
#include <sys/socket.h>
#include <netinet/in.h>
#include <arpa/inet.h>
#include <dirent.h>
#include <pthread.h>
#include <poll.h>
#include <map>
using std::string;
using std::vector;

namespace {

int g_target_window = -1;
struct Ctx {
  uint64_t k = 0; int mode = 0;
  uint64_t window_requests = 0;
  uint64_t failed_requests = 0;
  string verdict, klass;
  PError *err = nullptr;
  bool in_window = false;
  string uniq; // unique name stem for IPC objects / temp files
  vector<string> ipc_names; // user-level IPC names used by the scenario (for the leftover census)
  int widx = 0;
  // the k-th request of EVERY window fails (target -1), or only that of window g_target_window (the other windows just count): the second
  // form keeps the state a later window starts from intact - a window that failed earlier may have removed exactly the precondition
  // (e.g. an error that still holds a message) under which a later call goes wrong
  void W0() { in_window = true; bool active = g_target_window < 0 || widx == g_target_window; widx++; va::arm(active ? k : 0, active && mode == 1); }
  void W1() { failed_requests += va::st().failed; window_requests += va::disarm(); in_window = false; }
  void fail(const string &kl, const string &msg) { if (verdict.empty()) { verdict = msg; klass = kl; } }
  bool ok(bool cond, const string &kl, const string &msg) { if (!cond) fail(kl, msg); return cond; }
  PError **E() { if (err) { p_error_free(err); err = nullptr; } return &err; }
  void drop_err() { if (err) { p_error_free(err); err = nullptr; } }
};

typedef void (*ScenFn)(Ctx &);
struct Scen { const char *name; ScenFn fn; const char *configs; }; // configs: "" = all, else substring match on VERIF_CONFIG

// ---- helpers ---------------------------------------------------------------------------------------
int count_fds() {
  int n = 0;
  DIR *d = opendir("/proc/self/fd");
  if (!d) return -1;
  while (readdir(d)) n++;
  closedir(d);
  return n;
}
vector<string> shm_names(const string &) {
  vector<string> v;
  DIR *d = opendir("/dev/shm");
  if (!d) return v;
  while (dirent *e = readdir(d)) { string n = e->d_name; if (n != "." && n != "..") v.push_back(n); }
  closedir(d);
  std::sort(v.begin(), v.end());
  return v;
}
int count_shm_maps() {
  FILE *f = fopen("/proc/self/maps", "r");
  if (!f) return -1;
  char line[512]; int n = 0;
  while (fgets(line, sizeof line, f)) if (strstr(line, "/dev/shm/")) n++;
  fclose(f);
  return n;
}
int memfd_with(const string &content) {
  int fd = memfd_create("vfault", 0);
  if (fd >= 0) { ssize_t r = write(fd, content.data(), content.size()); (void)r; }
  return fd;
}

// ---- tagged objects for tree notifiers --------------------------------------------------------------
struct TObj { int magic; int key; int destroyed; };
int tcmp(pconstpointer a, pconstpointer b, ppointer) { int x = ((const TObj *)a)->key, y = ((const TObj *)b)->key; return x < y ? -1 : x > y; }
void tdestroy(ppointer p) { ((TObj *)p)->destroyed++; }
pboolean tcount(ppointer, ppointer, ppointer data) { (*(int *)data)++; return FALSE; }

void scen_tree_common(Ctx &x, PTreeType tt) {
  vector<TObj *> objs;
  auto mk = [&](int k) { TObj *o = new TObj{0x7ee, k, 0}; objs.push_back(o); return o; };
  PTree *t = p_tree_new_full(tt, tcmp, NULL, tdestroy, tdestroy);
  if (!x.ok(t != NULL, "setup", "tree setup failed")) return;
  std::map<int, std::pair<TObj *, TObj *>> model;
  for (int k : {50, 20, 80, 10, 30, 70, 90}) { TObj *a = mk(k), *b = mk(k); p_tree_insert(t, a, b); model[k] = {a, b}; }
  // window: insert a new key, replace an existing one, insert another new key
  struct Ins { int k; TObj *a, *b; };
  vector<Ins> ins;
  for (int k : {25, 20, 95}) ins.push_back({k, mk(k), mk(k)});
  x.W0();
  for (auto &i : ins) p_tree_insert(t, i.a, i.b);
  x.W1();
  // atomicity per insert: either the pair is in (lookup gives i.b) or not (then tree must still hold what it held)
  for (auto &i : ins) {
    ppointer v = p_tree_lookup(t, i.a);
    if (v == i.b) model[i.k] = {i.a, i.b};
    else {
      auto it = model.find(i.k);
      if (it == model.end()) x.ok(v == NULL, "damage", "failed tree insert left a foreign value for the key");
      else x.ok(v == it->second.second, "damage", "failed tree replace changed the stored value");
    }
  }
  x.ok(p_tree_get_nnodes(t) == (pint)model.size(), "damage", "tree node count " + std::to_string(p_tree_get_nnodes(t)) + " != content " + std::to_string(model.size()) + " after failed insert");
  int visited = 0;
  p_tree_foreach(t, tcount, &visited);
  x.ok(visited == (int)model.size(), "damage", "tree traversal count differs after failed insert");
  for (auto &kv : model) { TObj probe{0x7ee, kv.first, 0}; x.ok(p_tree_lookup(t, &probe) == kv.second.second, "damage", "pre-existing tree pair lost or changed"); }
  // still usable
  { TObj *a = mk(55), *b = mk(55); p_tree_insert(t, a, b); TObj probe{0x7ee, 55, 0}; x.ok(p_tree_lookup(t, &probe) == b, "damage", "tree unusable after failed insert"); model[55] = {a, b}; }
  x.ok(p_tree_remove(t, model[10].first) == TRUE, "damage", "remove failed after failed insert");
  p_tree_free(t);
  // ownership: objects that ended up in the tree were destroyed exactly once (incl. replaced ones); others never
  for (TObj *o : objs) x.ok(o->destroyed <= 1, "damage", "tree object destroyed twice");
  for (TObj *o : objs) delete o;
}
void scen_tree_bst(Ctx &x) { scen_tree_common(x, P_TREE_TYPE_BINARY); }
void scen_tree_rb(Ctx &x) { scen_tree_common(x, P_TREE_TYPE_RB); }
void scen_tree_avl(Ctx &x) { scen_tree_common(x, P_TREE_TYPE_AVL); }
void scen_tree_new(Ctx &x) {
  for (PTreeType tt : {P_TREE_TYPE_BINARY, P_TREE_TYPE_RB, P_TREE_TYPE_AVL}) {
    x.W0();
    PTree *t = p_tree_new_full(tt, tcmp, NULL, NULL, NULL);
    x.W1();
    if (t) { TObj a{0x7ee, 1, 0}; p_tree_insert(t, &a, &a); x.ok(p_tree_lookup(t, &a) == &a, "damage", "new tree unusable"); p_tree_free(t); }
  }
}

vector<uintptr_t> lvec(PList *l) { vector<uintptr_t> v; for (; l; l = l->next) v.push_back((uintptr_t)l->data); return v; }
void scen_list(Ctx &x) {
  PList *l = NULL;
  for (uintptr_t i = 1; i <= 3; i++) l = p_list_append(l, (ppointer)i);
  vector<uintptr_t> model = {1, 2, 3};
  x.W0();
  PList *l2 = p_list_append(l, (ppointer)4);
  x.W1();
  vector<uintptr_t> got = lvec(l2);
  vector<uintptr_t> with = model; with.push_back(4);
  x.ok(got == model || got == with, "damage", "list after failed append is neither unchanged nor appended");
  l = l2; model = got;
  x.W0();
  l2 = p_list_prepend(l, (ppointer)9);
  x.W1();
  got = lvec(l2);
  with = model; with.insert(with.begin(), 9);
  x.ok(got == model || got == with, "damage", "list after failed prepend is neither unchanged nor prepended");
  l = l2;
  x.W0();
  PList *e = p_list_append(NULL, (ppointer)7);
  x.W1();
  x.ok(e == NULL || (lvec(e) == vector<uintptr_t>{7}), "damage", "append to empty list wrong");
  p_list_free(e);
  l = p_list_append(l, (ppointer)5);
  x.ok(p_list_length(l) == got.size() + 1, "damage", "list unusable after failed prepend");
  p_list_free(l);
}

bool submultiset(vector<uintptr_t> a, vector<uintptr_t> b) { // a subset of b
  std::sort(a.begin(), a.end()); std::sort(b.begin(), b.end());
  return std::includes(b.begin(), b.end(), a.begin(), a.end());
}
void scen_hashtable(Ctx &x) {
  x.W0();
  PHashTable *fresh = p_hash_table_new();
  x.W1();
  if (fresh) { p_hash_table_insert(fresh, (ppointer)1, (ppointer)2); x.ok(p_hash_table_lookup(fresh, (ppointer)1) == (ppointer)2, "damage", "new hash table unusable"); p_hash_table_free(fresh); }
  PHashTable *t = p_hash_table_new();
  if (!x.ok(t != NULL, "setup", "hash table setup failed")) return;
  std::map<uintptr_t, uintptr_t> model;
  for (uintptr_t k : {1, 102, 203, 7, 0}) { p_hash_table_insert(t, (ppointer)k, (ppointer)(k + 1000)); model[k] = k + 1000; }
  x.W0();
  p_hash_table_insert(t, (ppointer)304, (ppointer)5);   // same bucket as 1,102,203
  p_hash_table_insert(t, (ppointer)102, (ppointer)6);   // overwrite: no allocation needed
  x.W1();
  ppointer v = p_hash_table_lookup(t, (ppointer)304);
  x.ok(v == (ppointer)5 || v == (ppointer)-1, "damage", "failed hash insert left a foreign value");
  if (v == (ppointer)5) model[304] = 5;
  x.ok(p_hash_table_lookup(t, (ppointer)102) == (ppointer)6, "damage", "overwrite of an existing key must not depend on allocation");
  model[102] = 6;
  for (auto &kv : model) x.ok(p_hash_table_lookup(t, (ppointer)kv.first) == (ppointer)kv.second, "damage", "pre-existing hash entry lost or changed");
  vector<uintptr_t> keys, vals;
  for (auto &kv : model) { keys.push_back(kv.first); vals.push_back(kv.second); }
  x.W0();
  PList *lk = p_hash_table_keys(t);
  PList *lv = p_hash_table_values(t);
  PList *lb = p_hash_table_lookup_by_value(t, (ppointer)6, NULL);
  x.W1();
  x.ok(submultiset(lvec(lk), keys), "damage", "keys() under allocation failure lists something that is not a key");
  x.ok(submultiset(lvec(lv), vals), "damage", "values() under allocation failure lists something that is not a value");
  x.ok(submultiset(lvec(lb), {102}), "damage", "lookup_by_value() under allocation failure lists a wrong key");
  p_list_free(lk); p_list_free(lv); p_list_free(lb);
  lk = p_hash_table_keys(t);
  { vector<uintptr_t> g = lvec(lk); std::sort(g.begin(), g.end()); std::sort(keys.begin(), keys.end()); x.ok(g == keys, "damage", "hash table content changed by failed listing"); }
  p_list_free(lk);
  p_hash_table_remove(t, (ppointer)1);
  x.ok(p_hash_table_lookup(t, (ppointer)1) == (ppointer)-1, "damage", "hash table unusable after failures");
  p_hash_table_free(t);
}

const char *INI_TEXT = "[alpha]\nk1 = v1\nk2 = \"quoted ; value\"\nk1 = v1b\n; comment = x\n[empty]\n[beta]\nn = 42\nd = 2.5\nb = true\nl = {a b c}\n\n[gamma]\nz = 'single'\n";
vector<string> strs(PList *l) { vector<string> v; for (PList *c = l; c; c = c->next) v.push_back(c->data ? (const char *)c->data : "(null)"); p_list_foreach(l, (PFunc)p_free, NULL); p_list_free(l); return v; }
void ini_consistent(Ctx &x, PIniFile *ini, const char *when) {
  vector<string> secs = strs(p_ini_file_sections(ini));
  for (auto &s : secs) {
    vector<string> keys = strs(p_ini_file_keys(ini, s.c_str()));
    x.ok(!keys.empty(), "damage", string(when) + ": listed section without keys");
    for (auto &k : keys) {
      x.ok(p_ini_file_is_key_exists(ini, s.c_str(), k.c_str()) == TRUE, "damage", string(when) + ": listed key does not exist");
      pchar *v = p_ini_file_parameter_string(ini, s.c_str(), k.c_str(), NULL);
      x.ok(v != NULL, "damage", string(when) + ": listed key without value");
      p_free(v);
    }
  }
}
void scen_ini_parse(Ctx &x) {
  int fd = memfd_with(INI_TEXT);
  char path[64]; snprintf(path, sizeof path, "/proc/self/fd/%d", fd);
  x.W0();
  PIniFile *ini = p_ini_file_new(path);
  x.W1();
  if (ini) {
    x.W0();
    pboolean r = p_ini_file_parse(ini, x.E());
    x.W1();
    x.drop_err();
    if (r) {
      ini_consistent(x, ini, "after parse under allocation failure");
      // whatever was parsed must be a subset of the file's real content
      pchar *v = p_ini_file_parameter_string(ini, "beta", "n", NULL);
      x.ok(v == NULL || !strcmp(v, "42"), "damage", "parse under allocation failure produced a wrong value");
      p_free(v);
      v = p_ini_file_parameter_string(ini, "alpha", "k1", NULL);
      x.ok(v == NULL || !strcmp(v, "v1b") || !strcmp(v, "v1"), "damage", "parse under allocation failure produced a wrong value");
      p_free(v);
    }
    p_ini_file_free(ini);
  }
  close(fd);
}
void scen_ini_query(Ctx &x) {
  int fd = memfd_with(INI_TEXT);
  char path[64]; snprintf(path, sizeof path, "/proc/self/fd/%d", fd);
  PIniFile *ini = p_ini_file_new(path);
  if (!x.ok(ini && p_ini_file_parse(ini, NULL), "setup", "ini setup failed")) { close(fd); return; }
  x.W0();
  PList *secs = p_ini_file_sections(ini);
  PList *keys = p_ini_file_keys(ini, "beta");
  pchar *s = p_ini_file_parameter_string(ini, "alpha", "k2", "dflt");
  PList *lst = p_ini_file_parameter_list(ini, "beta", "l");
  pint n = p_ini_file_parameter_int(ini, "beta", "n", -1);
  double d = p_ini_file_parameter_double(ini, "beta", "d", -1.0);
  pboolean b = p_ini_file_parameter_boolean(ini, "beta", "b", FALSE);
  x.W1();
  (void)b;
  // degraded results are fine; wrong content is not. NULL entries in returned lists (failed p_strdup) are tolerated as "degraded".
  for (PList *c = secs; c; c = c->next) if (c->data) { string v = (const char *)c->data; x.ok(v == "alpha" || v == "beta" || v == "gamma", "damage", "sections() returned a wrong name under allocation failure"); }
  for (PList *c = keys; c; c = c->next) if (c->data) { string v = (const char *)c->data; x.ok(v == "n" || v == "d" || v == "b" || v == "l", "damage", "keys() returned a wrong name under allocation failure"); }
  x.ok(s == NULL || !strcmp(s, "quoted ; value") || !strcmp(s, "dflt"), "damage", "parameter_string returned wrong text under allocation failure");
  for (PList *c = lst; c; c = c->next) if (c->data) { string v = (const char *)c->data; x.ok(v == "a" || v == "b" || v == "c", "damage", "parameter_list returned a wrong token"); }
  x.ok(n == 42 || n == -1, "damage", "parameter_int returned neither the value nor the default");
  x.ok(d == 2.5 || d == -1.0 || d == 0.0, "damage", "parameter_double returned neither the value nor a default");
  strs(secs); strs(keys); strs(lst); p_free(s);
  // unchanged and usable afterwards
  vector<string> s2 = strs(p_ini_file_sections(ini));
  std::sort(s2.begin(), s2.end());
  x.ok(s2 == vector<string>{"alpha", "beta", "gamma"}, "damage", "ini object changed by failed queries");
  x.ok(p_ini_file_parameter_int(ini, "beta", "n", -1) == 42, "damage", "ini object changed by failed queries");
  p_ini_file_free(ini);
  close(fd);
}

void scen_hash_objects(Ctx &x) {
  for (int a : {0, 1, 3, 5, 7, 10}) {
    x.W0();
    PCryptoHash *h = p_crypto_hash_new((PCryptoHashType)a);
    x.W1();
    if (h) { p_crypto_hash_update(h, (const puchar *)"abc", 3); pchar *s = p_crypto_hash_get_string(h); x.ok(s != NULL, "damage", "new hash object unusable"); p_free(s); p_crypto_hash_free(h); }
  }
  PCryptoHash *h = p_crypto_hash_new(P_CRYPTO_HASH_TYPE_MD5);
  if (!x.ok(h != NULL, "setup", "hash setup failed")) return;
  p_crypto_hash_update(h, (const puchar *)"abc", 3);
  x.W0();
  pchar *s = p_crypto_hash_get_string(h);
  x.W1();
  x.ok(s == NULL || !strcmp(s, "900150983cd24fb0d6963f7d28e17f72"), "damage", "get_string under allocation failure returned a wrong digest");
  p_free(s);
  s = p_crypto_hash_get_string(h);
  x.ok(s && !strcmp(s, "900150983cd24fb0d6963f7d28e17f72"), "damage", "hash object damaged by failed get_string");
  p_free(s);
  p_crypto_hash_free(h);
}

void scen_dir(Ctx &x) {
  string d = "/tmp/vfault_" + x.uniq;
  mkdir(d.c_str(), 0700);
  for (const char *f : {"a", "b", "c"}) { string p = d + "/" + f; FILE *fp = fopen(p.c_str(), "w"); if (fp) fclose(fp); }
  auto cleanup = [&] { for (const char *f : {"a", "b", "c"}) unlink((d + "/" + f).c_str()); rmdir(d.c_str()); };
  x.W0();
  PDir *dir = p_dir_new((d + "/").c_str(), x.E());
  x.W1();
  x.drop_err();
  if (dir) {
    pchar *p = p_dir_get_path(dir);
    x.ok(p == NULL || string(p) == d + "/", "damage", "p_dir_get_path wrong after p_dir_new under allocation failure");
    p_free(p);
    p_dir_free(dir);
  }
  dir = p_dir_new(d.c_str(), NULL);
  if (!x.ok(dir != NULL, "setup", "dir setup failed")) { cleanup(); return; }
  x.W0();
  vector<PDirEntry *> es;
  for (int i = 0; i < 3; i++) es.push_back(p_dir_get_next_entry(dir, x.E()));
  pchar *p = p_dir_get_path(dir);
  x.W1();
  x.drop_err();
  for (PDirEntry *e : es) if (e) { x.ok(e->name != NULL, "damage", "dir entry without a name"); p_dir_entry_free(e); }
  p_free(p);
  // still valid: rewind and enumerate all five entries
  x.ok(p_dir_rewind(dir, NULL) == TRUE, "damage", "dir rewind failed after allocation failures");
  int n = 0;
  while (PDirEntry *e = p_dir_get_next_entry(dir, NULL)) { n++; p_dir_entry_free(e); if (n > 20) break; }
  x.ok(n == 5, "damage", "dir iterator damaged by failed get_next_entry: saw " + std::to_string(n) + " entries");
  p_dir_free(dir);
  cleanup();
}

void scen_error(Ctx &x) {
  x.W0();
  PError *a = p_error_new();
  PError *b = p_error_new_literal(5, 6, "literal message");
  x.W1();
  if (b) { x.ok(p_error_get_code(b) == 5 && p_error_get_native_code(b) == 6, "damage", "new_literal fields wrong"); const pchar *m = p_error_get_message(b); x.ok(m == NULL || !strcmp(m, "literal message"), "damage", "new_literal message wrong"); }
  p_error_free(a); p_error_free(b);
  PError *e = p_error_new_literal(1, 2, "old");
  if (!x.ok(e != NULL, "setup", "error setup failed")) return;
  x.W0();
  PError *c = p_error_copy(e);
  x.W1();
  if (c) { x.ok(p_error_get_code(c) == 1, "damage", "copy fields wrong"); const pchar *m = p_error_get_message(c); x.ok(m == NULL || !strcmp(m, "old"), "damage", "copy message wrong"); p_error_free(c); }
  x.ok(!strcmp(p_error_get_message(e), "old") && p_error_get_code(e) == 1, "damage", "source error changed by failed copy");
  p_error_set_message(e, "old");
  x.W0();
  p_error_set_message(e, "new message");
  x.W1();
  { const pchar *m = p_error_get_message(e); x.ok(m == NULL || !strcmp(m, "new message") || !strcmp(m, "old"), "damage", "message after failed set_message is garbage"); }
  // every window fails its own k-th request, so the window before may have left the message NULL: give the error a message again first
  // (an error that HOLDS a message is the state in which a failed update can leave a stale pointer behind)
  p_error_set_message(e, "again");
  x.W0();
  p_error_set_error(e, 7, 8, "third");
  x.W1();
  { const pchar *m = p_error_get_message(e); x.ok(m == NULL || !strcmp(m, "third") || !strcmp(m, "again"), "damage", "message after failed set_error is garbage"); }
  { PError *cp = p_error_copy(e); if (cp) { const pchar *m2 = p_error_get_message(cp), *m1 = p_error_get_message(e); x.ok((m1 == NULL) == (m2 == NULL) && (!m1 || !strcmp(m1, m2)), "damage", "copy of the error after a failed set_error differs from it"); p_error_free(cp); } }
  PError *pe = NULL;
  x.W0();
  p_error_set_error_p(&pe, 3, 4, "via pointer");
  x.W1();
  if (pe) { x.ok(p_error_get_code(pe) == 3, "damage", "set_error_p fields wrong"); p_error_free(pe); }
  p_error_clear(e);
  p_error_set_message(e, "usable");
  x.ok(p_error_get_message(e) && !strcmp(p_error_get_message(e), "usable"), "damage", "error object unusable after failures");
  p_error_free(e);
}

void scen_sync_objects(Ctx &x) {
  x.W0();
  PMutex *m = p_mutex_new();
  PCondVariable *c = p_cond_variable_new();
  PSpinLock *s = p_spinlock_new();
  PTimeProfiler *tp = p_time_profiler_new();
  x.W1();
  if (m) { x.ok(p_mutex_lock(m) && p_mutex_unlock(m), "damage", "new mutex unusable"); p_mutex_free(m); }
  if (c) { x.ok(p_cond_variable_signal(c) == TRUE, "damage", "new cond unusable"); p_cond_variable_free(c); }
  if (s) { x.ok(p_spinlock_lock(s) && p_spinlock_unlock(s), "damage", "new spinlock unusable"); p_spinlock_free(s); }
  if (tp) { (void)p_time_profiler_elapsed_usecs(tp); p_time_profiler_free(tp); }
}
void scen_rwlock(Ctx &x) {
  x.W0();
  PRWLock *l = p_rwlock_new();
  x.W1();
  if (l) {
    x.ok(p_rwlock_reader_lock(l) && p_rwlock_reader_unlock(l) && p_rwlock_writer_lock(l) && p_rwlock_writer_unlock(l), "damage", "new rwlock unusable");
    p_rwlock_free(l);
  }
}

void scen_semaphore(Ctx &x) {
  string name = "vfs_" + x.uniq; x.ipc_names.push_back(name);
  x.W0();
  PSemaphore *s = p_semaphore_new(name.c_str(), 1, P_SEM_ACCESS_CREATE, x.E());
  x.W1();
  x.drop_err();
  if (s) {
    x.ok(p_semaphore_acquire(s, NULL) && p_semaphore_release(s, NULL), "damage", "new semaphore unusable");
    p_semaphore_take_ownership(s);
    p_semaphore_free(s);
  }
  // existing semaphore must survive a failed second open
  PSemaphore *a = p_semaphore_new(name.c_str(), 2, P_SEM_ACCESS_CREATE, NULL);
  if (!x.ok(a != NULL, "setup", "semaphore setup failed")) return;
  x.W0();
  PSemaphore *b = p_semaphore_new(name.c_str(), 5, P_SEM_ACCESS_OPEN, x.E());
  x.W1();
  x.drop_err();
  if (b) p_semaphore_free(b);
  x.ok(vi::exists(vi::sem_file(name)), "damage", "the name of the existing semaphore was removed from the system by a second open (failed or not) that never owned it");
  x.ok(p_semaphore_acquire(a, NULL) && p_semaphore_acquire(a, NULL), "damage", "existing semaphore lost units after a failed open");
  x.ok(p_semaphore_release(a, NULL) && p_semaphore_release(a, NULL), "damage", "existing semaphore unusable");
  p_semaphore_take_ownership(a);
  p_semaphore_free(a);
}
void scen_shm(Ctx &x) {
  string name = "vfm_" + x.uniq; x.ipc_names.push_back(name);
  x.W0();
  PShm *m = p_shm_new(name.c_str(), 1024, P_SHM_ACCESS_READWRITE, x.E());
  x.W1();
  x.drop_err();
  if (m) {
    x.ok(p_shm_get_size(m) == 1024 && p_shm_get_address(m) != NULL, "damage", "new shm wrong");
    x.ok(p_shm_lock(m, NULL) && p_shm_unlock(m, NULL), "damage", "new shm lock unusable");
    memset(p_shm_get_address(m), 7, 1024);
    p_shm_take_ownership(m);
    p_shm_free(m);
  }
  PShm *a = p_shm_new(name.c_str(), 512, P_SHM_ACCESS_READWRITE, NULL);
  if (!x.ok(a != NULL, "setup", "shm setup failed")) return;
  memset(p_shm_get_address(a), 0x42, 512);
  x.W0();
  PShm *b = p_shm_new(name.c_str(), 512, P_SHM_ACCESS_READWRITE, x.E());
  x.W1();
  x.drop_err();
  if (b) p_shm_free(b);
  x.ok(vi::exists(vi::shm_file(name)) && vi::exists(vi::shm_lock_file(name)), "damage", "the names of the existing segment or of its lock were removed from the system by a second open (failed or not) that never owned them");
  x.ok(((unsigned char *)p_shm_get_address(a))[511] == 0x42 && p_shm_lock(a, NULL) && p_shm_unlock(a, NULL), "damage", "existing shm damaged by a failed second open");
  p_shm_take_ownership(a);
  p_shm_free(a);
}
void scen_shmbuffer(Ctx &x) {
  string name = "vfb_" + x.uniq; x.ipc_names.push_back(name);
  x.W0();
  PShmBuffer *b = p_shm_buffer_new(name.c_str(), 100, x.E());
  x.W1();
  x.drop_err();
  if (b) {
    char d[10] = "123456789";
    x.ok(p_shm_buffer_write(b, d, 9, NULL) == 9 && p_shm_buffer_get_used_space(b, NULL) == 9, "damage", "new shm buffer unusable");
    p_shm_buffer_take_ownership(b);
    p_shm_buffer_free(b);
  }
  // an existing buffer with unread bytes must survive a second open of its name, failed or not: still shared under its name, bytes intact
  PShmBuffer *a = p_shm_buffer_new(name.c_str(), 100, NULL);
  if (!x.ok(a != NULL, "setup", "shm buffer setup failed")) return;
  x.ok(p_shm_buffer_write(a, (ppointer)"token-1", 7, NULL) == 7, "setup", "shm buffer setup write failed");
  x.W0();
  PShmBuffer *b2 = p_shm_buffer_new(name.c_str(), 100, x.E());
  x.W1();
  x.drop_err();
  if (b2) p_shm_buffer_free(b2);
  x.ok(vi::exists(vi::shm_file(name)) && vi::exists(vi::shm_lock_file(name)), "damage", "the names of the existing buffer's segment or lock were removed from the system by a second p_shm_buffer_new (failed or not) that never owned them");
  PShmBuffer *c3 = p_shm_buffer_new(name.c_str(), 100, NULL);
  if (c3) {
    char got[16] = {0}; pint n = p_shm_buffer_read(c3, got, 7, NULL);
    x.ok(n == 7 && !memcmp(got, "token-1", 7), "damage", "a fresh handle on the name no longer sees the bytes queued in the existing buffer (the failed open detached the name from it)");
    p_shm_buffer_free(c3);
  } else x.ok(false, "damage", "the existing buffer's name can no longer be opened after a failed second open");
  p_shm_buffer_take_ownership(a);
  p_shm_buffer_free(a);
}

int raw_listener(int &port) {
  int s = socket(AF_INET, SOCK_STREAM, 0);
  sockaddr_in a; memset(&a, 0, sizeof a); a.sin_family = AF_INET; a.sin_addr.s_addr = htonl(INADDR_LOOPBACK);
  bind(s, (sockaddr *)&a, sizeof a); listen(s, 4);
  socklen_t l = sizeof a; getsockname(s, (sockaddr *)&a, &l); port = ntohs(a.sin_port);
  return s;
}
void scen_socket(Ctx &x) {
  x.W0();
  PSocket *s = p_socket_new(P_SOCKET_FAMILY_INET, P_SOCKET_TYPE_STREAM, P_SOCKET_PROTOCOL_TCP, x.E());
  x.W1();
  x.drop_err();
  if (s) { x.ok(p_socket_get_fd(s) >= 0 && !p_socket_is_closed(s), "damage", "new socket wrong"); p_socket_free(s); }
  // server socket with a pending raw client
  PSocket *srv = p_socket_new(P_SOCKET_FAMILY_INET, P_SOCKET_TYPE_STREAM, P_SOCKET_PROTOCOL_TCP, NULL);
  PSocketAddress *la = p_socket_address_new("127.0.0.1", 0);
  if (!x.ok(srv && la && p_socket_bind(srv, la, TRUE, NULL) && p_socket_listen(srv, NULL), "setup", "server socket setup failed")) { if (srv) p_socket_free(srv); if (la) p_socket_address_free(la); return; }
  p_socket_address_free(la);
  p_socket_set_timeout(srv, 2000);
  x.W0();
  PSocketAddress *loc = p_socket_get_local_address(srv, x.E());
  x.W1();
  x.drop_err();
  PSocketAddress *loc2 = p_socket_get_local_address(srv, NULL);
  if (!x.ok(loc2 != NULL, "damage", "get_local_address fails after healed allocator")) { p_socket_free(srv); if (loc) p_socket_address_free(loc); return; }
  int port = p_socket_address_get_port(loc2);
  if (loc) { x.ok(p_socket_address_get_port(loc) == port, "damage", "get_local_address under failure returned wrong port"); p_socket_address_free(loc); }
  p_socket_address_free(loc2);
  int cli = socket(AF_INET, SOCK_STREAM, 0);
  sockaddr_in a; memset(&a, 0, sizeof a); a.sin_family = AF_INET; a.sin_addr.s_addr = htonl(INADDR_LOOPBACK); a.sin_port = htons((uint16_t)port);
  if (!x.ok(connect(cli, (sockaddr *)&a, sizeof a) == 0, "setup", "raw connect failed")) { close(cli); p_socket_free(srv); return; }
  x.W0();
  PSocket *acc = p_socket_accept(srv, x.E());
  x.W1();
  x.drop_err();
  if (acc) {
    x.W0();
    PSocketAddress *ra = p_socket_get_remote_address(acc, x.E());
    x.W1();
    x.drop_err();
    if (ra) { pchar *t = p_socket_address_get_address(ra); x.ok(t && !strcmp(t, "127.0.0.1"), "damage", "remote address wrong"); p_free(t); p_socket_address_free(ra); }
    x.ok(send(cli, "hi", 2, 0) == 2, "setup", "raw send failed");
    char buf[8]; p_socket_set_timeout(acc, 2000);
    x.ok(p_socket_receive(acc, buf, sizeof buf, NULL) == 2, "damage", "accepted socket unusable");
    p_socket_free(acc);
  }
  x.ok(p_socket_is_closed(srv) == FALSE && p_socket_get_listen_backlog(srv) == 5, "damage", "listening socket changed by a failed accept");
  close(cli);
  p_socket_free(srv);
  // new_from_fd: on failure the descriptor stays with the caller
  int fd = socket(AF_INET, SOCK_DGRAM, 0);
  x.W0();
  PSocket *ff = p_socket_new_from_fd(fd, x.E());
  x.W1();
  x.drop_err();
  if (ff) p_socket_free(ff); else close(fd);
}
void scen_udp_receive_from(Ctx &x) {
  PSocket *r = p_socket_new(P_SOCKET_FAMILY_INET, P_SOCKET_TYPE_DATAGRAM, P_SOCKET_PROTOCOL_UDP, NULL);
  PSocketAddress *la = p_socket_address_new("127.0.0.1", 0);
  if (!x.ok(r && la && p_socket_bind(r, la, TRUE, NULL), "setup", "udp setup failed")) { if (r) p_socket_free(r); if (la) p_socket_address_free(la); return; }
  p_socket_address_free(la);
  PSocketAddress *loc = p_socket_get_local_address(r, NULL);
  int port = p_socket_address_get_port(loc);
  p_socket_address_free(loc);
  int cli = socket(AF_INET, SOCK_DGRAM, 0);
  sockaddr_in a; memset(&a, 0, sizeof a); a.sin_family = AF_INET; a.sin_addr.s_addr = htonl(INADDR_LOOPBACK); a.sin_port = htons((uint16_t)port);
  sendto(cli, "dgram1", 6, 0, (sockaddr *)&a, sizeof a);
  sendto(cli, "dgram2", 6, 0, (sockaddr *)&a, sizeof a);
  p_socket_set_timeout(r, 2000);
  char buf[16];
  PSocketAddress *from = NULL;
  x.W0();
  pssize n = p_socket_receive_from(r, &from, buf, sizeof buf, x.E());
  x.W1();
  x.drop_err();
  x.ok(n == 6 || n == -1, "damage", "receive_from under allocation failure returned a wrong size");
  if (from) { pchar *t = p_socket_address_get_address(from); x.ok(t && !strcmp(t, "127.0.0.1"), "damage", "sender address wrong"); p_free(t); p_socket_address_free(from); }
  from = NULL;
  n = p_socket_receive_from(r, &from, buf, sizeof buf, NULL);
  x.ok(n == 6 && from != NULL, "damage", "socket unusable after failed receive_from");
  if (from) p_socket_address_free(from);
  close(cli);
  p_socket_free(r);
}
void scen_sockaddr(Ctx &x) {
  x.W0();
  PSocketAddress *a = p_socket_address_new("127.0.0.1", 80);
  PSocketAddress *b = p_socket_address_new("::1", 81);
  PSocketAddress *c = p_socket_address_new_any(P_SOCKET_FAMILY_INET6, 82);
  PSocketAddress *d = p_socket_address_new_loopback(P_SOCKET_FAMILY_INET, 83);
  sockaddr_in sa; memset(&sa, 0, sizeof sa); sa.sin_family = AF_INET; sa.sin_port = htons(84); sa.sin_addr.s_addr = htonl(0x01020304);
  PSocketAddress *e = p_socket_address_new_from_native(&sa, sizeof sa);
  x.W1();
  if (a) x.ok(p_socket_address_get_port(a) == 80 && p_socket_address_is_loopback(a), "damage", "address a wrong");
  if (b) x.ok(p_socket_address_get_port(b) == 81 && p_socket_address_is_loopback(b), "damage", "address b wrong");
  if (c) x.ok(p_socket_address_is_any(c), "damage", "address c wrong");
  if (e) x.ok(p_socket_address_get_port(e) == 84, "damage", "address e wrong");
  pchar *t = NULL;
  if (e) { x.W0(); t = p_socket_address_get_address(e); x.W1(); x.ok(t == NULL || !strcmp(t, "1.2.3.4"), "damage", "get_address text wrong"); p_free(t); t = p_socket_address_get_address(e); x.ok(t && !strcmp(t, "1.2.3.4"), "damage", "address damaged by failed get_address"); p_free(t); }
  for (PSocketAddress *p : {a, b, c, d, e}) if (p) p_socket_address_free(p);
}
void scen_strings(Ctx &x) {
  x.W0();
  pchar *a = p_strdup("abc");
  pchar *b = p_strchomp("  abc \t");
  double d = p_strtod(" 1.5 ");
  x.W1();
  x.ok(a == NULL || !strcmp(a, "abc"), "damage", "p_strdup wrong");
  x.ok(b == NULL || !strcmp(b, "abc"), "damage", "p_strchomp wrong");
  x.ok(d == 1.5 || d == 0.0, "damage", "p_strtod returned neither the value nor 0");
  p_free(a); p_free(b);
}

ppointer thr_fn(ppointer arg) { (*(int *)arg)++; return NULL; }
void scen_thread_create(Ctx &x) {
  for (const char *name : {(const char *)NULL, "short", "a-very-long-thread-name-beyond-15"}) {
    int ran = 0;
    x.W0();
    PUThread *t = p_uthread_create(thr_fn, &ran, TRUE, name);
    if (t) p_uthread_join(t);   // keep the window open while the thread runs its own allocations
    x.W1();
    if (t) { x.ok(ran == 1, "damage", "created thread did not run exactly once"); p_uthread_unref(t); }
    else { struct timespec ts = {0, 2000000}; nanosleep(&ts, NULL); x.ok(ran == 0, "damage", "create reported failure but the thread ran"); }
  }
}
void ldestroy(ppointer p) { (*(int *)p)++; }
void scen_thread_local(Ctx &x) {
  int v1 = 0, v2 = 0;
  x.W0();
  PUThreadKey *k = p_uthread_local_new(ldestroy);
  x.W1();
  if (!k) return;
  x.W0();
  p_uthread_set_local(k, &v1);
  ppointer g = p_uthread_get_local(k);
  x.W1();
  x.ok(g == &v1 || g == NULL, "damage", "get_local returned garbage after set_local under allocation failure");
  x.W0();
  p_uthread_replace_local(k, &v2);
  ppointer g2 = p_uthread_get_local(k);
  x.W1();
  x.ok(g2 == &v2 || g2 == g, "damage", "get_local returned garbage after replace_local under allocation failure");
  p_uthread_set_local(k, NULL);
  p_uthread_local_free(k);
}
void *foreign_fn(void *arg) {
  Ctx *x = (Ctx *)arg;
  x->W0();
  PUThread *me = p_uthread_current();
  PUThread *me2 = p_uthread_current();
  x->W1();
  x->ok(me == NULL || me2 == NULL || me == me2, "damage", "p_uthread_current not stable in a foreign thread");
  return NULL;
}
void scen_thread_foreign(Ctx &x) {
  pthread_t t;
  pthread_create(&t, NULL, foreign_fn, &x);
  pthread_join(t, NULL);
}
void scen_loader(Ctx &x) {
  x.W0();
  PLibraryLoader *l = p_library_loader_new("/lib/x86_64-linux-gnu/libm.so.6");
  x.W1();
  if (l) {
    x.ok(p_library_loader_get_symbol(l, "cos") != NULL, "damage", "loader unusable");
    (void)p_library_loader_get_symbol(l, "no_such_symbol_xyz");
    x.W0();
    pchar *e = p_library_loader_get_last_error(l);
    x.W1();
    p_free(e);
    p_library_loader_free(l);
  }
}
// a shared object that this process has not loaded yet: a dlopen reference that is not given back keeps it mapped (visible in
// /proc/self/maps), unlike libm, which the harness itself is linked against
static bool so_mapped(const string &path) {
  FILE *f = fopen("/proc/self/maps", "r"); if (!f) return false; char line[1024]; bool hit = false; string base = path.substr(path.rfind('/') + 1);
  while (fgets(line, sizeof line, f)) if (strstr(line, base.c_str())) { hit = true; break; }
  fclose(f); return hit;
}
static string unloaded_so() {
  for (const char *c : {"/lib/x86_64-linux-gnu/libBrokenLocale.so.1", "/lib/x86_64-linux-gnu/libanl.so.1", "/lib/x86_64-linux-gnu/libutil.so.1", "/lib/x86_64-linux-gnu/libthread_db.so.1", "/lib/x86_64-linux-gnu/libnss_hesiod.so.2"})
    if (access(c, R_OK) == 0 && !so_mapped(c)) return c;
  return "";
}
void scen_loader_mapping(Ctx &x) {
  string lib = unloaded_so();
  if (lib.empty()) return;
  x.W0();
  PLibraryLoader *l = p_library_loader_new(lib.c_str());
  x.W1();
  if (l) p_library_loader_free(l);
  x.ok(!so_mapped(lib), "mapping-left", string("after p_library_loader_new (") + (l ? "succeeded, then freed" : "failed") + ") the shared object " + lib + " is still mapped into the process: the reference obtained from the system loader during the call was not given back");
}
void scen_libsys_cycle(Ctx &x) {
  PMemVTable t; t.f_malloc = va::v_malloc; t.f_realloc = va::v_realloc; t.f_free = va::v_free;
  p_libsys_shutdown();
  x.W0();
  p_libsys_init_full(&t);
  x.W1();
  p_libsys_shutdown();
  p_libsys_init_full(&t);
  pchar *s = p_strdup("x");
  x.ok(s != NULL, "damage", "library unusable after init under allocation failure");
  p_free(s);
}

// ---- generated windows: whole random histories on containers, every request is a candidate -------------
void scen_gen_tree(Ctx &x, int seed) {
  uint64_t r = 0x9E3779B97F4A7C15ULL * (uint64_t)(seed + 1);
  auto next = [&] { r ^= r << 13; r ^= r >> 7; r ^= r << 17; return r; };
  PTreeType tt = (PTreeType)(seed % 3);
  vector<TObj *> objs;
  auto mk = [&](int k) { TObj *o = new TObj{0x7ee, k, 0}; objs.push_back(o); return o; };
  PTree *t = p_tree_new_full(tt, tcmp, NULL, tdestroy, tdestroy);
  if (!x.ok(t != NULL, "setup", "tree setup failed")) return;
  std::map<int, std::pair<TObj *, TObj *>> model;
  x.W0();
  for (int i = 0; i < 40 && x.verdict.empty(); i++) {
    int k = (int)(next() % 12);
    if (next() % 3) {
      TObj *a = mk(k), *b = mk(k);
      p_tree_insert(t, a, b);
      ppointer v = p_tree_lookup(t, a);
      if (v == b) model[k] = {a, b};
      else { auto it = model.find(k); x.ok(it == model.end() ? v == NULL : v == it->second.second, "damage", "generated history: failed insert was not atomic"); }
    } else {
      TObj probe{0x7ee, k, 0};
      pboolean rr = p_tree_remove(t, &probe);
      x.ok((rr == TRUE) == (model.count(k) != 0), "damage", "generated history: remove result wrong");
      model.erase(k);
    }
    x.ok(p_tree_get_nnodes(t) == (pint)model.size(), "damage", "generated history: node count differs from content");
  }
  x.W1();
  for (auto &kv : model) { TObj probe{0x7ee, kv.first, 0}; x.ok(p_tree_lookup(t, &probe) == kv.second.second, "damage", "generated history: pair lost"); }
  p_tree_free(t);
  for (TObj *o : objs) { x.ok(o->destroyed <= 1, "damage", "object destroyed twice"); delete o; }
}
void scen_gen_ht_list(Ctx &x, int seed) {
  uint64_t r = 0xD1B54A32D192ED03ULL * (uint64_t)(seed + 1);
  auto next = [&] { r ^= r << 13; r ^= r >> 7; r ^= r << 17; return r; };
  PHashTable *t = p_hash_table_new();
  if (!x.ok(t != NULL, "setup", "hash setup failed")) return;
  std::map<uintptr_t, uintptr_t> model;
  PList *l = NULL; vector<uintptr_t> lm;
  x.W0();
  for (int i = 0; i < 40 && x.verdict.empty(); i++) {
    uintptr_t k = 1 + 101 * (next() % 6), v = next() % 1000;
    switch (next() % 5) {
    case 0: case 1: {
      p_hash_table_insert(t, (ppointer)k, (ppointer)v);
      ppointer g = p_hash_table_lookup(t, (ppointer)k);
      if (g == (ppointer)v) model[k] = v;
      else x.ok(model.count(k) ? g == (ppointer)model[k] : g == (ppointer)-1, "damage", "generated history: failed hash insert not atomic");
      break;
    }
    case 2: p_hash_table_remove(t, (ppointer)k); model.erase(k); break;
    case 3: {
      PList *n = p_list_append(l, (ppointer)v);
      vector<uintptr_t> g = lvec(n), w = lm; w.push_back(v);
      x.ok(g == lm || g == w, "damage", "generated history: failed list append not atomic");
      l = n; lm = g; break;
    }
    default: { PList *ks = p_hash_table_keys(t); vector<uintptr_t> all; for (auto &kv : model) all.push_back(kv.first); x.ok(submultiset(lvec(ks), all), "damage", "generated history: keys() lists a non-key"); p_list_free(ks); }
    }
  }
  x.W1();
  for (auto &kv : model) x.ok(p_hash_table_lookup(t, (ppointer)kv.first) == (ppointer)kv.second, "damage", "generated history: hash entry lost");
  p_hash_table_free(t);
  p_list_free(l);
}
const Scen SCENS[] = {
    {"tree_insert_bst", scen_tree_bst, ""}, {"tree_insert_rb", scen_tree_rb, ""}, {"tree_insert_avl", scen_tree_avl, ""}, {"tree_new", scen_tree_new, ""},
    {"list", scen_list, ""}, {"hashtable", scen_hashtable, ""}, {"ini_parse", scen_ini_parse, ""}, {"ini_query", scen_ini_query, ""},
    {"hash_objects", scen_hash_objects, ""}, {"dir", scen_dir, ""}, {"error", scen_error, ""}, {"sync_objects", scen_sync_objects, ""},
    {"rwlock", scen_rwlock, ""}, {"semaphore", scen_semaphore, ""}, {"shm", scen_shm, ""}, {"shmbuffer", scen_shmbuffer, ""},
    {"socket", scen_socket, ""}, {"udp_receive_from", scen_udp_receive_from, ""}, {"sockaddr", scen_sockaddr, ""}, {"strings", scen_strings, ""},
    {"thread_create", scen_thread_create, ""}, {"thread_local", scen_thread_local, ""}, {"thread_foreign", scen_thread_foreign, ""},
    {"loader", scen_loader, ""}, {"loader_mapping", scen_loader_mapping, ""}, {"libsys_cycle", scen_libsys_cycle, ""},
};
const int NSCEN = sizeof SCENS / sizeof SCENS[0];
int g_gen_seed = 0;
void scen_gen_tree_dyn(Ctx &x) { scen_gen_tree(x, g_gen_seed); }
void scen_gen_htl_dyn(Ctx &x) { scen_gen_ht_list(x, g_gen_seed); }
std::vector<std::string> g_gen_names;   // storage for dynamic names
Scen g_dyn;
const Scen *find_scen(const string &n) {
  for (auto &s : SCENS) if (n == s.name) return &s;
  if (n.rfind("gen_tree_", 0) == 0) { g_gen_seed = atoi(n.c_str() + 9); g_gen_names.push_back(n); g_dyn = Scen{g_gen_names.back().c_str(), scen_gen_tree_dyn, "T"}; return &g_dyn; }
  if (n.rfind("gen_htl_", 0) == 0) { g_gen_seed = atoi(n.c_str() + 8); g_gen_names.push_back(n); g_dyn = Scen{g_gen_names.back().c_str(), scen_gen_htl_dyn, "T"}; return &g_dyn; }
  return nullptr;
}

struct Result { string verdict, klass; uint64_t window = 0, failed = 0; long residual = 0; int windows = 0; };

// runs one (scenario, k, mode) in this process
Result run_one(const Scen &s, uint64_t k, int mode, long residual_ok = 0) {
  Ctx x; x.k = k; x.mode = mode;
  char u[96]; snprintf(u, sizeof u, "%d_%lx_%s", (int)getpid(), ({ struct timespec ts_; clock_gettime(CLOCK_MONOTONIC, &ts_); (long)(ts_.tv_sec * 1000000000L + ts_.tv_nsec); }), s.name); x.uniq = u;
  size_t base_live = va::live_count();
  int base_fds = count_fds();
  int base_maps = count_shm_maps();
  s.fn(x);
  if (x.in_window) x.W1();
  x.drop_err();
  Result r; r.window = x.window_requests; r.failed = x.failed_requests; r.windows = x.widx;
  if (x.verdict.empty()) {
    // allow detached/just-finished thread bookkeeping to settle
    for (int i = 0; i < 50 && (long)va::live_count() - (long)base_live > residual_ok; i++) { struct timespec ts = {0, 2000000}; nanosleep(&ts, NULL); }
    long resid = (long)va::live_count() - (long)base_live;
    r.residual = resid;
    if (k != 0 && resid > residual_ok) x.fail("leak", std::to_string(resid - residual_ok) + " library block(s) allocated during the failed call sequence are still allocated after teardown (the same sequence without a failure leaves " + std::to_string(residual_ok) + ")");
    else if (count_fds() != base_fds) x.fail("fd-leak", "descriptor count changed from " + std::to_string(base_fds) + " to " + std::to_string(count_fds()));
    else if (!vi::leftovers(x.ipc_names).empty()) { x.fail("name-leak", "IPC name left in the system: " + vi::leftovers(x.ipc_names)[0]); vi::sweep(x.ipc_names); }
    else if (count_shm_maps() != base_maps) x.fail("map-leak", "a shared mapping was left behind");
  }
  r.verdict = x.verdict; r.klass = x.klass;
  return r;
}

// "the call returns normally": a scenario takes milliseconds; one that has burnt NO_RETURN_CPU_S seconds of this process's own CPU time
// (ITIMER_VIRTUAL: load and sleeping do not count) is inside a library call that spins instead of returning, e.g. on a lock that a failed
// call left held.  One-sided: a call that blocks without burning CPU still ends as "inconclusive" at the wall-clock watchdog.
const int NO_RETURN_CPU_S = 10;
int g_nr_fd = -1; char g_nr_scen[96];
void no_return_cb(int) {
  char msg[400];
  snprintf(msg, sizeof msg, "a library call of the scenario does not return: the process has spent %d s of CPU time inside it (scenarios take milliseconds) - a failed call left the library in a state in which a later call spins forever", NO_RETURN_CPU_S);
  if (g_nr_fd >= 0) { dprintf(g_nr_fd, "\nVRESULT 0 1 0 0 no-return|%s\n", msg); _exit(1); }
  printf("REPLAY-FAIL C18:no-return:%s: %s\n", g_nr_scen, msg); fflush(stdout); _exit(1);
}
void arm_no_return(int fd, const char *scen) {
  g_nr_fd = fd; strncpy(g_nr_scen, scen, sizeof g_nr_scen - 1);
  signal(SIGVTALRM, no_return_cb);
  struct itimerval it; memset(&it, 0, sizeof it); it.it_value.tv_sec = NO_RETURN_CPU_S; setitimer(ITIMER_VIRTUAL, &it, NULL);
}
// forked execution; returns verdict ("" ok). died=true if the child was killed / sanitizer abort
Result run_forked(const Scen &s, uint64_t k, int mode, string *child_out, long residual_ok = 0, int target_window = -1) {
  int pfd[2];
  if (pipe(pfd) != 0) { Result r; r.verdict = "harness: pipe failed"; r.klass = "harness"; return r; }
  fflush(NULL);
  pid_t pid = fork();
  if (pid == 0) {
    prctl(PR_SET_PDEATHSIG, SIGKILL);
    close(pfd[0]);
    dup2(pfd[1], 2);
    alarm(300);   // wall-clock watchdog (inconclusive): far above the CPU budget so that on a loaded machine the CPU-time verdict comes first
    if (k > 0) arm_no_return(pfd[1], s.name);
    g_target_window = target_window;
    Result r = run_one(s, k, mode, residual_ok);
    dprintf(pfd[1], "\nVRESULT %llu %llu %ld %d %s|%s\n", (unsigned long long)r.window, (unsigned long long)r.failed, r.residual, r.windows, r.klass.c_str(), r.verdict.c_str());
    _exit(r.verdict.empty() ? 0 : 1);
  }
  close(pfd[1]);
  string out; char buf[4096]; ssize_t n;
  while ((n = read(pfd[0], buf, sizeof buf)) > 0) out.append(buf, (size_t)n);
  close(pfd[0]);
  int st = 0;
  waitpid(pid, &st, 0);
  if (child_out) *child_out = out;
  Result r;
  size_t p = out.rfind("VRESULT ");
  if (p != string::npos) {
    unsigned long long w = 0, f = 0; long rs = 0; int off = 0, nw = 0;
    sscanf(out.c_str() + p, "VRESULT %llu %llu %ld %d %n", &w, &f, &rs, &nw, &off);
    r.window = w; r.failed = f; r.residual = rs; r.windows = nw;
    string rest = out.substr(p + off);
    rest = rest.substr(0, rest.find('\n'));
    size_t bar = rest.find('|');
    r.klass = rest.substr(0, bar); r.verdict = bar == string::npos ? "" : rest.substr(bar + 1);
    return r;
  }
  // no result line: the child died
  if (WIFSIGNALED(st) && WTERMSIG(st) == SIGALRM) { r.klass = "inconclusive"; r.verdict = ""; vl::stats().count("watchdog_expired_inconclusive"); return r; }
  r.klass = "crash";
  string first;
  size_t e = out.find("ERROR: AddressSanitizer"); if (e == string::npos) e = out.find("runtime error:");
  first = e == string::npos ? (WIFSIGNALED(st) ? "killed by signal " + std::to_string(WTERMSIG(st)) : "exit status " + std::to_string(WEXITSTATUS(st))) : out.substr(e, out.find('\n', e) - e);
  r.verdict = "process died in scenario: " + first;
  return r;
}

string case_text(const string &scen, uint64_t k, int mode, int window = -1) { return "fault " + scen + " " + std::to_string(k) + " " + std::to_string(mode) + (window >= 0 ? " " + std::to_string(window) : string()) + "\n"; }

int run_generated() {
  long shard = vl::envl("VERIF_SHARD", 0), nshards = vl::envl("VERIF_NSHARDS", 1);
  bool thorough = vl::env("VERIF_TIER", "quick") == "thorough";
  string only = vl::env("VERIF_SCEN", "");
  int failed = 0;
  long idx = 0;
  std::set<string> reported;
  vector<string> names;
  for (int si = 0; si < NSCEN; si++) names.push_back(SCENS[si].name);
  long seed0 = vl::envl("VERIF_BASE_SEED", 1) * 100000;
  int ngen = thorough ? 4000 : 400;
  g_gen_names.reserve(4 * ngen + 16);
  for (int i = 0; i < ngen; i++) { names.push_back("gen_tree_" + std::to_string(seed0 + i)); names.push_back("gen_htl_" + std::to_string(seed0 + i)); }
  for (size_t si = 0; si < names.size(); si++) {
    const Scen *sp = find_scen(names[si]);
    if (!sp) continue;
    Scen s = *sp; string sname = names[si]; s.name = sname.c_str();
    if (!only.empty() && only.find(s.name) == string::npos && !(only == "gen" && string(s.configs) == "T")) continue;
    if (only.empty() && string(s.configs) == "T" && vl::env("VERIF_NOGEN", "") == "1") continue;
    // count run
    string out;
    Result base = run_forked(s, 0, 0, &out);
    if (!base.verdict.empty()) {
      if ((idx++ % nshards) == shard) {
        string text = case_text(s.name, 0, 0);
        vl::stats().record(text, false, vl::fnv1a(text));
        vl::report_failure(string("nofault_") + s.name, text, "C18:" + base.klass + ":" + s.name + ": (no failure injected) " + base.verdict, base.klass);
        failed++;
      }
      continue;
    }
    uint64_t N = base.window;
    if (shard == 0) vl::stats().counters[string("requests_in_window_") + s.name] = N;
    if (shard == 0 && base.residual > 0) vl::stats().counters[string("nofault_residual_blocks_") + s.name] = (uint64_t)base.residual;
    for (uint64_t k = 1; k <= N; k++)
      for (int mode = 0; mode < 2; mode++) {
        if ((idx++ % nshards) != shard) continue;
        string text = case_text(s.name, k, mode);
        vl::set_current_case("enum", text);
        string cout_;
        Result r = run_forked(s, k, mode, &cout_, base.residual);
        bool nontriv = k >= 2;
        vl::stats().record(text, nontriv, vl::fnv1a(text));
        vl::stats().klass(string(mode ? "mode_all_after" : "mode_once"));
        if (r.failed > 0) vl::stats().klass("fault_consumed"); else vl::stats().klass("fault_not_reached");
        if (!r.verdict.empty()) {
          string key = r.klass + ":" + s.name;
          if (vl::excluded(key)) { vl::stats().count("tolerated_known_" + key); continue; }
          if (reported.insert(key).second) {
            vl::report_failure("enum_" + key, text, "C18:" + r.klass + ":" + s.name + ": " + r.verdict + " [fail request " + std::to_string(k) + (mode ? " and all later" : " once") + "]", r.klass);
            failed++;
          }
        }
      }
    // the same, one window at a time (scenarios with more than one window; table scenarios always, generated histories in the thorough tier)
    if (base.windows > 1 && (string(s.configs) != "T" || thorough))
      for (int j = 0; j < base.windows; j++) {
        if ((idx++ % nshards) != shard) continue;
        bool reached = true;
        for (uint64_t k = 1; k <= N && reached; k++)
          for (int mode = 0; mode < 2; mode++) {
            string text = case_text(s.name, k, mode, j);
            vl::set_current_case("enum", text);
            string cout_;
            Result r = run_forked(s, k, mode, &cout_, base.residual, j);
            vl::stats().record(text, k >= 2, vl::fnv1a(text));
            vl::stats().klass(string(mode ? "isolated_window_all_after" : "isolated_window_once"));
            if (r.failed == 0 && r.verdict.empty()) { if (mode == 0) reached = false; break; }   // window j has fewer than k requests
            if (!r.verdict.empty()) {
              string key = r.klass + ":" + s.name;
              if (vl::excluded(key)) { vl::stats().count("tolerated_known_" + key); continue; }
              if (reported.insert(key).second) {
                vl::report_failure("enum_" + key, text, "C18:" + r.klass + ":" + s.name + ": " + r.verdict + " [fail request " + std::to_string(k) + (mode ? " and all later" : " once") + " of window " + std::to_string(j) + " only]", r.klass);
                failed++;
              }
            }
          }
      }
  }
  vl::stats().exhaustive["every_allocation_index_of_every_listed_scenario"] = thorough;
  return failed;
}

string run_replay(const string &text) {
  auto w = vl::split_ws(text);
  if (w.size() < 4 || w[0] != "fault") return "unparsable case";
  const Scen *s = find_scen(w[1]);
  if (!s) return "unknown scenario " + w[1];
  Result base = run_forked(*s, 0, 0, nullptr);
  g_target_window = w.size() > 4 ? atoi(w[4].c_str()) : -1;
  arm_no_return(-1, s->name);
  Result r = run_one(*s, strtoull(w[2].c_str(), 0, 10), atoi(w[3].c_str()), base.residual);
  { struct itimerval off; memset(&off, 0, sizeof off); setitimer(ITIMER_VIRTUAL, &off, NULL); }
  if (r.verdict.empty()) return "";
  return "C18:" + r.klass + ":" + s->name + ": " + r.verdict;
}
} // namespace

int main(int argc, char **argv) {
  PMemVTable t; t.f_malloc = va::v_malloc; t.f_realloc = va::v_realloc; t.f_free = va::v_free;
  p_libsys_init_full(&t);
  signal(SIGPIPE, SIG_IGN);
  { // warm up one-time lazy state (library TLS key, thread bookkeeping) so it is not attributed to a scenario
    int ran = 0;
    PUThread *t = p_uthread_create(thr_fn, &ran, TRUE, "warm");
    if (t) { p_uthread_join(t); p_uthread_unref(t); }
    (void)p_uthread_current();
  }
  return vl::harness_main(argc, argv, run_generated, run_replay);
}
