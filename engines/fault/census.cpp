// census.cpp - resource-neutrality harness (C20): generated lifecycle histories across all modules;
// census (library allocations, descriptors, shared mappings, IPC names) before == after.
//
// Case format:  census            followed by one episode per line:
//   <kind> <a> <b> <c> <d>        (integer knobs; meaning per kind, see run_episode)
#include <rapidcheck.h>
#include <fcntl.h>
#include "../../vlib/vlib.h"
#include "../../vlib/valloc.h"
#include "../../vlib/vipc.h"
#include <sys/mman.h>
#include <sys/stat.h>
#include <sys/socket.h>
#include <netinet/in.h>
#include <arpa/inet.h>
#include <dirent.h>
#include <pthread.h>
using std::string;
using std::vector;

namespace {

struct Ep { string kind; int a = 0, b = 0, c = 0, d = 0; };
struct Case { vector<Ep> eps; };
string to_text(const Case &c) {
  std::ostringstream os; os << "census\n";
  for (auto &e : c.eps) os << e.kind << ' ' << e.a << ' ' << e.b << ' ' << e.c << ' ' << e.d << "\n";
  return os.str();
}
bool from_text(const string &t, Case &c) {
  for (auto &l : vl::split_lines(t)) {
    auto w = vl::split_ws(l);
    if (w.empty() || w[0] == "census" || w[0][0] == '#') continue;
    Ep e; e.kind = w[0];
    if (w.size() > 1) e.a = atoi(w[1].c_str()); if (w.size() > 2) e.b = atoi(w[2].c_str());
    if (w.size() > 3) e.c = atoi(w[3].c_str()); if (w.size() > 4) e.d = atoi(w[4].c_str());
    c.eps.push_back(e);
  }
  return true;
}
void showValue(const Case &c, std::ostream &os) { os << to_text(c); }

int count_fds() { int n = 0; DIR *d = opendir("/proc/self/fd"); if (!d) return -1; while (readdir(d)) n++; closedir(d); return n; }
int count_shm_maps() { FILE *f = fopen("/proc/self/maps", "r"); if (!f) return -1; char line[512]; int n = 0; while (fgets(line, sizeof line, f)) if (strstr(line, "/dev/shm/")) n++; fclose(f); return n; }
long shm_map_bytes() {
  FILE *f = fopen("/proc/self/maps", "r"); if (!f) return -1; char line[512]; long tot = 0;
  while (fgets(line, sizeof line, f)) if (strstr(line, "/dev/shm/")) { unsigned long a, b; if (sscanf(line, "%lx-%lx", &a, &b) == 2) tot += (long)(b - a); }
  fclose(f); return tot;
}

struct Ctx {
  string uniq; int seq = 0;
  vector<string> ipc_names;
  std::set<string> classes;
  bool failing_call = false, multi_handle_diff = false;
  string fresh(const char *stem) { string n = string(stem) + uniq + "_" + std::to_string(seq++); ipc_names.push_back(n); return n; }
};

int tcmp(pconstpointer a, pconstpointer b, ppointer) { long x = (long)a, y = (long)b; return x < y ? -1 : x > y; }
int g_native_keys_used = 1;   // the library's own key
std::atomic<long> g_thr_done{0};   // harness-side: the body of a (possibly detached) thread has used its key for the last time
ppointer thr_fn(ppointer arg) {
  PUThreadKey *k = (PUThreadKey *)arg;
  if (k) { p_uthread_set_local(k, malloc(8)); p_uthread_replace_local(k, malloc(8)); }
  (void)p_uthread_current();
  g_thr_done.fetch_add(1);
  return NULL;
}
void *foreign(void *) { PUThread *me = p_uthread_current(); (void)me; p_uthread_ref(me); p_uthread_unref(me); return NULL; }
int raw_udp_send(int port, const char *msg) {
  int s = socket(AF_INET, SOCK_DGRAM, 0);
  sockaddr_in a; memset(&a, 0, sizeof a); a.sin_family = AF_INET; a.sin_addr.s_addr = htonl(INADDR_LOOPBACK); a.sin_port = htons((uint16_t)port);
  sendto(s, msg, strlen(msg), 0, (sockaddr *)&a, sizeof a);
  return s;
}

void run_episode(Ctx &x, const Ep &e) {
  const string &k = e.kind;
  x.classes.insert(k);
  if (k == "tree") {
    PTree *t = p_tree_new_full((PTreeType)(e.a % 3), tcmp, NULL, NULL, NULL);
    for (long i = 0; i < e.b % 40; i++) p_tree_insert(t, (ppointer)((i * 7) % 23 + 1), (ppointer)i);
    for (long i = 0; i < e.c % 20; i++) p_tree_remove(t, (ppointer)((i * 5) % 23 + 1));
    if (e.d % 2) p_tree_clear(t);
    p_tree_free(t);
    x.failing_call |= p_tree_new((PTreeType)77, NULL) != NULL;
  } else if (k == "list_ht") {
    PHashTable *h = p_hash_table_new(); PList *l = NULL;
    for (long i = 0; i < e.a % 50; i++) { p_hash_table_insert(h, (ppointer)(i * 101 % 7 + i), (ppointer)i); l = p_list_append(l, (ppointer)i); }
    PList *ks = p_hash_table_keys(h), *vs = p_hash_table_values(h), *bv = p_hash_table_lookup_by_value(h, (ppointer)3, NULL);
    p_list_free(ks); p_list_free(vs); p_list_free(bv);
    for (long i = 0; i < e.b % 30; i++) { p_hash_table_remove(h, (ppointer)(i * 101 % 7 + i)); l = p_list_remove(l, (ppointer)i); }
    l = p_list_reverse(l);
    p_list_free(l); p_hash_table_free(h);
  } else if (k == "ini") {
    if (e.a % 3 == 0) { // failing: missing file
      PIniFile *ini = p_ini_file_new("/nonexistent/dir/file.ini"); PError *err = NULL;
      if (p_ini_file_parse(ini, &err)) {} else x.failing_call = true;
      if (err) p_error_free(err);
      p_ini_file_free(ini);
    } else {
      int fd = memfd_create("vc", 0); const char *txt = "[a]\nk = v\nl = {1 2 3}\n; c = d\n[b]\nx = \"y ; z\"\nx = 2\n";
      ssize_t r = write(fd, txt, strlen(txt)); (void)r;
      char path[64]; snprintf(path, sizeof path, "/proc/self/fd/%d", fd);
      PIniFile *ini = p_ini_file_new(path);
      p_ini_file_parse(ini, NULL);
      PList *s = p_ini_file_sections(ini); p_list_foreach(s, (PFunc)p_free, NULL); p_list_free(s);
      PList *ks = p_ini_file_keys(ini, "a"); p_list_foreach(ks, (PFunc)p_free, NULL); p_list_free(ks);
      PList *pl = p_ini_file_parameter_list(ini, "a", "l"); p_list_foreach(pl, (PFunc)p_free, NULL); p_list_free(pl);
      pchar *v = p_ini_file_parameter_string(ini, "b", "x", "d"); p_free(v);
      v = p_ini_file_parameter_string(ini, "b", "missing", "dflt"); p_free(v);
      p_ini_file_free(ini); close(fd);
    }
  } else if (k == "hash") {
    PCryptoHash *h = p_crypto_hash_new((PCryptoHashType)(e.a % 11));
    string d((size_t)(e.b % 500), 'x'); p_crypto_hash_update(h, (const puchar *)d.data(), d.size());
    pchar *s = p_crypto_hash_get_string(h); p_free(s);
    if (e.c % 2) { p_crypto_hash_reset(h); s = p_crypto_hash_get_string(h); p_free(s); }
    p_crypto_hash_free(h);
    x.failing_call |= p_crypto_hash_new((PCryptoHashType)99) == NULL;
  } else if (k == "error") {
    PError *a = p_error_new_literal(1, 2, "msg"), *b = p_error_copy(a), *c = p_error_new();
    p_error_set_message(b, "other"); p_error_set_error(c, 3, 4, "x"); p_error_clear(c);
    PError *p = NULL; p_error_set_error_p(&p, 5, 6, "via p");
    p_error_free(a); p_error_free(b); p_error_free(c); p_error_free(p);
  } else if (k == "dir") {
    if (e.a % 3 == 0) { PError *err = NULL; PDir *d = p_dir_new("/nonexistent_dir_xyz", &err); if (!d) x.failing_call = true; else p_dir_free(d); if (err) p_error_free(err); }
    else if (e.a % 3 == 1) {
      // a private directory with a regular file, a sub-directory, a dangling symlink and a symlink loop (stat() fails on the last two)
      string base = "/tmp/vcd_" + x.uniq + "_" + std::to_string(x.seq++);
      mkdir(base.c_str(), 0700);
      { FILE *f = fopen((base + "/file").c_str(), "w"); if (f) fclose(f); }
      mkdir((base + "/sub").c_str(), 0700);
      if (symlink((base + "/nowhere").c_str(), (base + "/dangling").c_str()) != 0) {}
      if (symlink((base + "/loop").c_str(), (base + "/loop").c_str()) != 0) {}
      PDir *d = p_dir_new(base.c_str(), NULL);
      if (d) { int n = 0; while (PDirEntry *en = p_dir_get_next_entry(d, NULL)) { p_dir_entry_free(en); if (++n > 20) break; } if (e.c % 2) { p_dir_rewind(d, NULL); PDirEntry *en = p_dir_get_next_entry(d, NULL); if (en) p_dir_entry_free(en); } p_dir_free(d); }
      x.classes.insert("dir_with_unstatable_entries");
      unlink((base + "/file").c_str()); unlink((base + "/dangling").c_str()); unlink((base + "/loop").c_str()); rmdir((base + "/sub").c_str()); rmdir(base.c_str());
    } else {
      PDir *d = p_dir_new("/usr/include", NULL);
      if (d) { for (int i = 0; i < e.b % 12; i++) { PDirEntry *en = p_dir_get_next_entry(d, NULL); if (!en) break; p_dir_entry_free(en); } pchar *p = p_dir_get_path(d); p_free(p); if (e.c % 2) p_dir_rewind(d, NULL); p_dir_free(d); }
    }
  } else if (k == "tcp") {
    // mode: 0 normal pair, 1 refused connect, 2 timed-out accept, 3 timed-out receive
    int mode = e.a % 4;
    PSocket *srv = p_socket_new(P_SOCKET_FAMILY_INET, P_SOCKET_TYPE_STREAM, P_SOCKET_PROTOCOL_TCP, NULL);
    PSocketAddress *any = p_socket_address_new("127.0.0.1", 0);
    p_socket_bind(srv, any, TRUE, NULL); p_socket_address_free(any);
    PSocketAddress *loc = p_socket_get_local_address(srv, NULL);
    int port = p_socket_address_get_port(loc);
    if (mode == 1) {
      p_socket_free(srv); srv = NULL; // port now closed
      PSocket *cl = p_socket_new(P_SOCKET_FAMILY_INET, P_SOCKET_TYPE_STREAM, P_SOCKET_PROTOCOL_TCP, NULL);
      p_socket_set_timeout(cl, 200);
      PError *err = NULL;
      if (!p_socket_connect(cl, loc, &err)) x.failing_call = true;
      if (err) p_error_free(err);
      p_socket_free(cl);
    } else {
      p_socket_listen(srv, NULL);
      if (mode == 2) {
        p_socket_set_timeout(srv, 10 + e.b % 20); PError *err = NULL;
        PSocket *acc = p_socket_accept(srv, &err);
        if (!acc) x.failing_call = true; else p_socket_free(acc);
        if (err) p_error_free(err);
      } else {
        PSocket *cl = p_socket_new(P_SOCKET_FAMILY_INET, P_SOCKET_TYPE_STREAM, P_SOCKET_PROTOCOL_TCP, NULL);
        // the application's choice of SO_LINGER 0: closing resets the connection, which leaves no TIME_WAIT entry (tens of thousands of
        // episodes must not exhaust the machine's ephemeral ports)
        auto reset_on_close = [](PSocket *s) { if (!s) return; struct linger lg = {1, 0}; setsockopt(p_socket_get_fd(s), SOL_SOCKET, SO_LINGER, &lg, sizeof lg); };
        reset_on_close(cl);
        p_socket_connect(cl, loc, NULL);
        p_socket_set_timeout(srv, 2000);
        PSocket *acc = p_socket_accept(srv, NULL);
        reset_on_close(acc);
        if (acc) {
          PSocketAddress *ra = p_socket_get_remote_address(acc, NULL); if (ra) p_socket_address_free(ra);
          if (mode == 3) { p_socket_set_timeout(acc, 10 + e.b % 20); char buf[8]; PError *err = NULL; if (p_socket_receive(acc, buf, sizeof buf, &err) < 0) x.failing_call = true; if (err) p_error_free(err); }
          else { char buf[64]; p_socket_send(cl, "hello", 5, NULL); p_socket_set_timeout(acc, 2000); p_socket_receive(acc, buf, sizeof buf, NULL); if (e.c % 2) p_socket_shutdown(acc, TRUE, TRUE, NULL); }
          if (e.d % 2) p_socket_close(acc, NULL);
          p_socket_free(acc);
        }
        if (e.d % 3 == 0) { p_socket_close(cl, NULL); PError *err = NULL; if (p_socket_send(cl, "x", 1, &err) < 0) x.failing_call = true; if (err) p_error_free(err); }
        p_socket_free(cl);
      }
    }
    if (srv) p_socket_free(srv);
    p_socket_address_free(loc);
  } else if (k == "udp") {
    PSocket *r = p_socket_new(P_SOCKET_FAMILY_INET, P_SOCKET_TYPE_DATAGRAM, P_SOCKET_PROTOCOL_UDP, NULL);
    PSocketAddress *any = p_socket_address_new("127.0.0.1", 0);
    p_socket_bind(r, any, TRUE, NULL); p_socket_address_free(any);
    PSocketAddress *loc = p_socket_get_local_address(r, NULL);
    int port = p_socket_address_get_port(loc);
    PSocket *s = p_socket_new(P_SOCKET_FAMILY_INET, P_SOCKET_TYPE_DATAGRAM, P_SOCKET_PROTOCOL_UDP, NULL);
    p_socket_send_to(s, loc, "dgram", 5, NULL);
    (void)port;
    p_socket_set_timeout(r, 1000);
    char buf[16]; PSocketAddress *from = NULL;
    p_socket_receive_from(r, &from, buf, sizeof buf, NULL);
    if (from) p_socket_address_free(from);
    if (e.a % 2) { p_socket_set_timeout(r, 10); PError *err = NULL; from = NULL; if (p_socket_receive_from(r, &from, buf, sizeof buf, &err) < 0) x.failing_call = true; if (from) p_socket_address_free(from); if (err) p_error_free(err); }
    p_socket_free(s); p_socket_free(r); p_socket_address_free(loc);
  } else if (k == "sockaddr") {
    PSocketAddress *a = p_socket_address_new("::1", 80), *b = p_socket_address_new("not an address", 1), *c = p_socket_address_new_any(P_SOCKET_FAMILY_INET6, 2);
    if (!b) x.failing_call = true; else p_socket_address_free(b);
    pchar *t = a ? p_socket_address_get_address(a) : NULL; p_free(t);
    if (a) p_socket_address_free(a); if (c) p_socket_address_free(c);
  } else if (k == "sem") {
    string name = x.fresh("vcs");
    int n = 1 + e.a % 3;
    vector<PSemaphore *> hs;
    hs.push_back(p_semaphore_new(name.c_str(), 1 + e.b % 3, P_SEM_ACCESS_CREATE, NULL));
    for (int i = 1; i < n; i++) hs.push_back(p_semaphore_new(name.c_str(), 7, P_SEM_ACCESS_OPEN, NULL));
    for (auto h : hs) if (h) { p_semaphore_acquire(h, NULL); p_semaphore_release(h, NULL); }
    // free order: owner first or last; a follower may take ownership instead
    bool owner_first = e.c % 2 == 0;
    if (e.d % 3 == 0 && n > 1 && hs[1]) p_semaphore_take_ownership(hs[1]);
    if (owner_first) for (auto h : hs) p_semaphore_free(h); else for (size_t i = hs.size(); i-- > 0;) p_semaphore_free(hs[i]);
    PError *err = NULL; PSemaphore *bad = p_semaphore_new(name.c_str(), -1, P_SEM_ACCESS_OPEN, &err); if (!bad) x.failing_call = true; else p_semaphore_free(bad); if (err) p_error_free(err);
    if (n > 1) x.classes.insert("sem_multi_handle");
  } else if (k == "shm") {
    string name = x.fresh("vcm");
    static const int sizes[] = {1, 100, 4096, 4097, 8192, 65537};
    int sz = sizes[e.a % 6];
    PShm *a = p_shm_new(name.c_str(), (psize)sz, P_SHM_ACCESS_READWRITE, NULL);
    vector<PShm *> hs; hs.push_back(a);
    int rel = e.b % 4; // second handle: 0 none, 1 equal, 2 smaller, 3 larger
    if (rel && !(rel == 2 && vl::excluded("shm-smaller-size-arg"))) {
      int sz2 = rel == 1 ? sz : rel == 2 ? std::max(1, sz / 3) : sz * 2 + 5;
      PShm *b = p_shm_new(name.c_str(), (psize)sz2, (e.c % 2) ? P_SHM_ACCESS_READONLY : P_SHM_ACCESS_READWRITE, NULL);
      hs.push_back(b);
      if (rel != 1) x.multi_handle_diff = true;
      x.classes.insert(rel == 1 ? "shm_second_equal" : rel == 2 ? "shm_second_smaller" : "shm_second_larger");
    } else if (rel == 2) vl::stats().count("excluded_shm_smaller_size_arg");
    for (auto h : hs) if (h) { p_shm_lock(h, NULL); volatile unsigned char ch = *(volatile unsigned char *)p_shm_get_address(h); (void)ch; p_shm_unlock(h, NULL); }
    bool owner_first = e.d % 2 == 0;
    if (owner_first) for (auto h : hs) p_shm_free(h); else for (size_t i = hs.size(); i-- > 0;) p_shm_free(hs[i]);
    PError *err = NULL; PShm *bad = p_shm_new(NULL, 10, P_SHM_ACCESS_READWRITE, &err); if (!bad) x.failing_call = true; else p_shm_free(bad); if (err) p_error_free(err);
    // creation that fails half-way on a fresh name: sizes the system refuses when the new segment is sized (ftruncate) or mapped (mmap)
    static const psize bad_sizes[] = {0, (psize)1 << 63, ~(psize)0, ((psize)1 << 63) - 1, (psize)1 << 46};
    if (e.c / 2 % 2) {
      string n3 = x.fresh("vcm"); psize bs = bad_sizes[(e.a / 6 + e.b / 4) % 5];
      PError *e3 = NULL; PShm *h = p_shm_new(n3.c_str(), bs, P_SHM_ACCESS_READWRITE, &e3);
      if (!h) { x.failing_call = true; x.classes.insert("shm_create_fails_halfway"); } else { p_shm_take_ownership(h); p_shm_free(h); }
      if (e3) p_error_free(e3);
    }
  } else if (k == "shmbuf") {
    string name = x.fresh("vcb");
    int cap = 10 + e.a % 200;
    PShmBuffer *a = p_shm_buffer_new(name.c_str(), (psize)cap, NULL);
    PShmBuffer *b = NULL;
    if (e.b % 2) { b = p_shm_buffer_new(name.c_str(), (psize)cap, NULL); }
    char d[32] = "0123456789abcdef";
    if (a) { p_shm_buffer_write(a, d, 9, NULL); if (b) { char o[16]; p_shm_buffer_read(b, o, 5, NULL); } p_shm_buffer_clear(a); (void)p_shm_buffer_get_free_space(a, NULL); }
    if (e.c % 2) { if (b) p_shm_buffer_free(b); p_shm_buffer_free(a); } else { p_shm_buffer_free(a); if (b) p_shm_buffer_free(b); }
    // failing open: a buffer on an existing segment that is too small for the header
    if (e.d % 2) {
      string n2 = x.fresh("vcb");
      PShm *small = p_shm_new(n2.c_str(), 4, P_SHM_ACCESS_READWRITE, NULL);
      PError *err = NULL; PShmBuffer *bad = p_shm_buffer_new(n2.c_str(), 100, &err);
      if (!bad) x.failing_call = true; else p_shm_buffer_free(bad);
      if (err) p_error_free(err);
      p_shm_free(small);
    }
    if (e.a / 200 % 2 || e.d % 4 == 2) {
      static const psize bad_caps[] = {~(psize)0, ~(psize)0 - 16, ((psize)1 << 63) - 17, (psize)1 << 63, (psize)1 << 46};
      string n3 = x.fresh("vcb");
      PError *e3 = NULL; PShmBuffer *h = p_shm_buffer_new(n3.c_str(), bad_caps[(e.a + e.b) % 5], &e3);
      if (!h) { x.failing_call = true; x.classes.insert("shmbuf_create_fails_halfway"); } else p_shm_buffer_free(h);
      if (e3) p_error_free(e3);
    }
  } else if (k == "thread") {
    // native TLS keys are never given back (p_uthread_local_free keeps the native key by design, p_libsys_shutdown too) and a process has
    // about 1000 of them: once they are gone the library cannot even remember a thread's own handle (every p_uthread_current allocates a new
    // one) - an exhausted environment, not a leak.  This process uses at most 400 of them; later episodes run without a key / skip the cycle
    bool key_budget = g_native_keys_used < 400; if (e.a % 2 && !key_budget) vl::stats().count("thread_episode_without_key_native_key_budget_spent");
    PUThreadKey *key = (e.a % 2 && !vl::excluded("tls-key") && key_budget) ? p_uthread_local_new(free) : NULL;
    if (key) g_native_keys_used++;
    if (e.a % 2 && vl::excluded("tls-key")) vl::stats().count("excluded_tls_key");
    bool joinable = e.b % 3 != 0;
    static const char *names[] = {NULL, "t", "quite-a-long-thread-name-here"};
    // c < 3: the three fixed names; otherwise a name of every length 1..44 (the platform's name limit, 16 with the terminator, lies inside)
    string lname; if (e.c >= 3) { lname.assign((size_t)(1 + (e.c >= 1000 ? e.c - 1000 : e.c) % 44), 'n'); x.classes.insert(lname.size() == 15 || lname.size() == 16 || lname.size() == 17 ? "thread_name_at_the_platform_limit" : "thread_name_generated_length"); }
    long done0 = g_thr_done.load();
    PUThread *t = p_uthread_create(thr_fn, key, joinable ? TRUE : FALSE, e.c >= 3 ? lname.c_str() : names[e.c % 3]);
    if (t) { if (e.d % 2) { p_uthread_ref(t); p_uthread_unref(t); } if (joinable) p_uthread_join(t); p_uthread_unref(t); }
    // a detached thread: its body must be through with the key before the key reference is given back (the harness's own obligation)
    if (t && !joinable) for (int i = 0; i < 20000 && g_thr_done.load() == done0; i++) { struct timespec ts = {0, 1000000}; nanosleep(&ts, NULL); }
    if (!joinable) { for (int i = 0; i < 200 && va::live_count() > 0; i++) { struct timespec ts = {0, 1000000}; nanosleep(&ts, NULL); if (i > 20) break; } }
    if (key) { struct timespec ts = {0, 3000000}; if (!joinable) nanosleep(&ts, NULL); p_uthread_local_free(key); x.classes.insert("tls_key"); }
  } else if (k == "foreign") {
    pthread_t t; pthread_create(&t, NULL, foreign, NULL); pthread_join(t, NULL);
  } else if (k == "sync") {
    PMutex *m = p_mutex_new(); PCondVariable *c = p_cond_variable_new(); PRWLock *l = p_rwlock_new(); PSpinLock *s = p_spinlock_new(); PTimeProfiler *tp = p_time_profiler_new();
    p_mutex_lock(m); p_mutex_unlock(m); p_rwlock_reader_lock(l); p_rwlock_reader_unlock(l); p_spinlock_lock(s); p_spinlock_unlock(s); p_cond_variable_broadcast(c);
    p_mutex_free(m); p_cond_variable_free(c); p_rwlock_free(l); p_spinlock_free(s); p_time_profiler_free(tp);
  } else if (k == "loader") {
    static const char *paths[] = {"/lib/x86_64-linux-gnu/libm.so.6", "/nonexistent/lib.so", "/etc/passwd"};
    PLibraryLoader *l = p_library_loader_new(paths[e.a % 3]);
    if (!l) { x.failing_call = true; pchar *err = p_library_loader_get_last_error(NULL); p_free(err); }
    else { (void)p_library_loader_get_symbol(l, "cos"); (void)p_library_loader_get_symbol(l, "nosuchsym"); pchar *err = p_library_loader_get_last_error(l); p_free(err); p_library_loader_free(l); }
  } else if (k == "libsys") {
    if (vl::excluded("libsys-cycle")) { vl::stats().count("excluded_libsys_cycle"); return; }
    if (g_native_keys_used >= 400) { vl::stats().count("libsys_cycle_skipped_native_key_budget_spent"); return; }
    g_native_keys_used++;   // the library's own key for thread handles is created anew after every init
    PMemVTable t; t.f_malloc = va::v_malloc; t.f_realloc = va::v_realloc; t.f_free = va::v_free;
    p_libsys_shutdown(); p_libsys_init_full(&t);
    (void)p_uthread_current(); // the main thread's lazily created handle is released by shutdown: re-create it so the baseline is comparable
  }
}

struct Outcome { string verdict, klass; bool nontrivial = false; uint64_t fp = 0; };

// Memory the library obtains from libc behind the allocator table (getaddrinfo results, stdio buffers, dlopen handles ...) is invisible to
// the tracking allocator.  Sub-checks that run with LeakSanitizer switched on (ASAN_OPTIONS detect_leaks=1, VERIF_LSAN=1) ask it after
// every history for blocks that are no longer reachable from anywhere: harness data stays reachable, a result the library dropped does not.
extern "C" int __lsan_do_recoverable_leak_check(void) __attribute__((weak));
Outcome run_case_inner(const Case &c);
Outcome run_case(const Case &c) {
  Outcome o = run_case_inner(c);
  static const bool lsan = vl::env("VERIF_LSAN", "0") == "1";
  // LeakSanitizer reports every block that is unreachable NOW, so once it has reported, every later history of this process would
  // "fail" too (and rapidcheck would shrink to the empty history): after the first report the oracle is off and the history that
  // tripped it is reported as it is; the replay runs it in a fresh process.
  static bool tripped = false;
  if (lsan && !tripped && __lsan_do_recoverable_leak_check && o.verdict.empty()) {
    if (__lsan_do_recoverable_leak_check() != 0) { tripped = true; o.klass = "unreachable-heap"; o.verdict = "LeakSanitizer: after the history memory obtained behind the allocator table (libc) is no longer reachable - see the report on stderr"; }
    else vl::stats().count("histories_checked_by_leaksanitizer");
  }
  return o;
}
Outcome run_case_inner(const Case &c) {
  Outcome o;
  Ctx x; char u[64]; snprintf(u, sizeof u, "%d_%lx", (int)getpid(), ({ struct timespec ts_; clock_gettime(CLOCK_MONOTONIC, &ts_); (long)(ts_.tv_sec * 1000000000L + ts_.tv_nsec); })); x.uniq = u;
  size_t live0 = va::live_count(); int fds0 = count_fds(); int maps0 = count_shm_maps(); long bytes0 = shm_map_bytes();
  auto fail = [&](const string &k, const string &m) { if (o.verdict.empty()) { o.verdict = m; o.klass = k; } };
  size_t idx = 0;
  for (auto &e : c.eps) {
    // one episode in five runs while descriptor 0 is free (a daemon that closed its stdin): the lowest free descriptor - 0 - is what the
    // library's socket / shm_open / fopen / opendir calls then receive.  It is an ordinary descriptor and has to be released like any other.
    bool low_fd = (e.a + e.b + e.c + e.d) % 5 == 0 && (e.kind == "tcp" || e.kind == "udp" || e.kind == "shm" || e.kind == "shmbuf" || e.kind == "ini" || e.kind == "dir" || e.kind == "sem");
    int saved0 = -1;
    if (low_fd) { saved0 = fcntl(0, F_DUPFD_CLOEXEC, 100); if (saved0 >= 0) close(0); else low_fd = false; }
    run_episode(x, e);
    if (low_fd) {
      bool still_open = fcntl(0, F_GETFD) != -1;
      dup2(saved0, 0); close(saved0);
      x.classes.insert("descriptor_0_free_during_episode");
      if (still_open) { fail("fd:" + e.kind, "episode " + std::to_string(idx) + " (" + e.kind + ") ran while descriptor 0 was free: descriptor 0 is still open afterwards (obtained by the library and never closed)"); break; }
    }
    // settle (detached threads)
    for (int i = 0; i < 5000 && va::live_count() != live0; i++) { struct timespec ts = {0, 1000000}; nanosleep(&ts, NULL); }
    long dl = (long)va::live_count() - (long)live0;
    if (dl != 0) { fail("alloc:" + e.kind, "after episode " + std::to_string(idx) + " (" + e.kind + " " + std::to_string(e.a) + " " + std::to_string(e.b) + " " + std::to_string(e.c) + " " + std::to_string(e.d) + ") " + std::to_string(dl) + " library block(s) remain allocated"); break; }
    int dfd = count_fds() - fds0;
    if (dfd != 0) { fail("fd:" + e.kind, "after episode " + std::to_string(idx) + " (" + e.kind + ") the process holds " + std::to_string(dfd) + " more descriptor(s)"); break; }
    long db = shm_map_bytes() - bytes0;
    if (db != 0) { fail("map:" + e.kind, "after episode " + std::to_string(idx) + " (" + e.kind + " " + std::to_string(e.a) + " " + std::to_string(e.b) + ") " + std::to_string(db) + " byte(s) of shared memory remain mapped"); break; }
    idx++;
  }
  if (o.verdict.empty()) {
    auto left = vi::leftovers(x.ipc_names);
    if (!left.empty()) fail("name", "IPC name left in the system after every handle was freed by an owner: " + left[0]);
    if (count_shm_maps() != maps0) fail("map", "shared mapping count changed");
  }
  vi::sweep(x.ipc_names);
  for (auto &k : x.classes) vl::stats().klass("episode_" + k);
  int kinds = 0; for (auto &k : x.classes) if (k.find('_') == string::npos) kinds++;
  o.nontrivial = x.failing_call && x.multi_handle_diff && kinds >= 3;
  if (x.failing_call) vl::stats().klass("history_with_failing_call");
  if (x.multi_handle_diff) vl::stats().klass("history_with_ipc_handles_of_different_size_args");
  o.fp = vl::fnv1a(to_text(c));
  return o;
}

rc::Gen<int> rng(int lo, int hi) { return rc::gen::resize(100, rc::gen::inRange(lo, hi)); }
rc::Gen<Ep> genEp() {
  using namespace rc;
  auto kind = gen::weightedElement<string>({{2, "tree"}, {2, "list_ht"}, {2, "ini"}, {2, "hash"}, {1, "error"}, {2, "dir"}, {3, "tcp"}, {2, "udp"}, {1, "sockaddr"}, {3, "sem"}, {5, "shm"}, {3, "shmbuf"}, {3, "thread"}, {1, "foreign"}, {1, "sync"}, {1, "loader"}, {1, "libsys"}});
  return gen::map(gen::tuple(kind, rng(0, 1000), rng(0, 1000), rng(0, 1000), rng(0, 1000)), [](const std::tuple<string, int, int, int, int> &t) { Ep e; e.kind = std::get<0>(t); e.a = std::get<1>(t); e.b = std::get<2>(t); e.c = std::get<3>(t); e.d = std::get<4>(t); return e; });
}
std::ostream &operator<<(std::ostream &os, const Ep &e) { return os << e.kind << ' ' << e.a << ' ' << e.b << ' ' << e.c << ' ' << e.d; }

int run_generated() {
  int failed = 0;
  string sub = vl::env("VERIF_SUB", "all");
  if (sub == "all" || sub == "rand") {
    bool ok = rc::check("lifecycle histories leave no resource behind", [&] {
      Case c; c.eps = *rc::gen::resize(14, rc::gen::container<vector<Ep>>(genEp()));
      string text = to_text(c);
      vl::set_current_case("rand", text);
      Outcome o = run_case(c);
      vl::stats().record(text, o.nontrivial, o.fp);
      if (!o.verdict.empty()) { vl::report_failure("rand", text, "C20:" + o.klass + ": " + o.verdict, o.klass); RC_FAIL(o.verdict); }
    });
    if (!ok) failed++;
  }
  if (sub == "all" || sub == "cycles") {
    // repeated identical create/free cycles per object kind: a leak of one block / descriptor per cycle becomes unmistakable
    bool thorough = vl::env("VERIF_TIER", "quick") == "thorough";
    int cycles = thorough ? 600 : 120;
    long shard = vl::envl("VERIF_SHARD", 0), nshards = vl::envl("VERIF_NSHARDS", 1);
    static const char *kinds[] = {"tree", "list_ht", "ini", "hash", "error", "dir", "tcp", "udp", "sockaddr", "sem", "shm", "shmbuf", "thread", "foreign", "sync", "loader", "libsys"};
    long idx = 0;
    for (const char *k : kinds)
      for (int variant = 0; variant < 6; variant++) {
        if ((idx++ % nshards) != shard) continue;
        Case c;
        int n = (string(k) == "tcp" || string(k) == "udp") ? cycles / 6 : (string(k) == "thread" ? std::min(cycles, 200) : cycles);
        for (int i = 0; i < n; i++) { Ep e; e.kind = k; e.a = variant; e.b = variant + 1; e.c = variant / 2; e.d = variant; c.eps.push_back(e); }
        Case shown; shown.eps.assign(c.eps.begin(), c.eps.begin() + 1);
        string text = "# " + std::to_string(n) + " identical cycles of:\n" + to_text(shown);
        vl::set_current_case("cycles", to_text(c));
        Outcome o = run_case(c);
        vl::stats().record(text, true, vl::fnv1a(text));
        if (!o.verdict.empty()) { vl::report_failure(string("cycles_") + k, to_text(shown), "C20:" + o.klass + ": " + o.verdict, o.klass); failed++; }
      }
    // thread names of every length 1..44, five cycles each
    for (int len = 1; len <= 44; len++) {
      if ((idx++ % nshards) != shard) continue;
      Case c; for (int i = 0; i < 5; i++) { Ep e; e.kind = "thread"; e.a = 0; e.b = 1; e.c = 1000 + len - 1; e.d = 0; c.eps.push_back(e); }
      Case shown; shown.eps.assign(c.eps.begin(), c.eps.begin() + 1);
      string text = "# 5 identical cycles of:\n" + to_text(shown);
      vl::set_current_case("cycles", to_text(c));
      Outcome o = run_case(c);
      vl::stats().record(text, true, vl::fnv1a(text));
      if (!o.verdict.empty()) { vl::report_failure("cycles_thread_name", to_text(shown), "C20:" + o.klass + ": " + o.verdict, o.klass); failed++; }
    }
  }
  return failed;
}
string run_replay(const string &text) {
  Case c; from_text(text, c);
  Outcome o = run_case(c);
  return o.verdict.empty() ? "" : "C20:" + o.klass + ": " + o.verdict;
}
} // namespace

int main(int argc, char **argv) {
  PMemVTable t; t.f_malloc = va::v_malloc; t.f_realloc = va::v_realloc; t.f_free = va::v_free;
  p_libsys_init_full(&t);
  signal(SIGPIPE, SIG_IGN);
  { PUThread *th = p_uthread_create(thr_fn, NULL, TRUE, "warm"); if (th) { p_uthread_join(th); p_uthread_unref(th); } (void)p_uthread_current(); }
  return vl::harness_main(argc, argv, run_generated, run_replay);
}
