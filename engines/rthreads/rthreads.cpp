// rthreads.cpp - generated multi-threaded programs on REAL threads (C01 visibility / exclusion, C04
// indivisibility and barriers).  Built in TSan configurations (c11, sim: happens-before oracle) and in
// plain -O2 configurations (c11, sync, sim: outcome oracles only).
//
// Case format:  rt <kind> T=<threads> N=<rounds> lock=<m|s> noise=<seed> width=<i|p>
//   kinds: lockrec (plain record under a lock), trylockrec, ticket (add returns unique olds), countdown
//          (dec_and_test TRUE exactly once), casloop, mp (message passing: plain data, flag via set/get),
//          sb (store buffering / Dekker: forbidden r0==0 && r1==0), mix (and/or/xor commutative mix)
#include <rapidcheck.h>
#include "../../vlib/vlib.h"
#include <pthread.h>
#include <sys/syscall.h>
#include <unistd.h>
#include <fcntl.h>
#include <semaphore.h>
#include "../../vlib/vipc.h"
#include <atomic>
#include <deque>
extern "C" {
#include <plibsys.h>
}
using std::string;
using std::vector;

namespace {

struct Case { string kind = "ticket"; int T = 2, N = 1000; char lock = 'm', width = 'i'; unsigned noise = 0; };
string to_text(const Case &c) {
  std::ostringstream os;
  os << "rt " << c.kind << " T=" << c.T << " N=" << c.N << " lock=" << c.lock << " noise=" << c.noise << " width=" << c.width << "\n";
  return os.str();
}
bool from_text(const string &t, Case &c) {
  auto w = vl::split_ws(t);
  if (w.size() < 2 || w[0] != "rt") return false;
  c.kind = w[1];
  for (size_t i = 2; i < w.size(); i++) {
    if (w[i].rfind("T=", 0) == 0) c.T = atoi(w[i].c_str() + 2);
    else if (w[i].rfind("N=", 0) == 0) c.N = atoi(w[i].c_str() + 2);
    else if (w[i].rfind("lock=", 0) == 0) c.lock = w[i][5];
    else if (w[i].rfind("noise=", 0) == 0) c.noise = (unsigned)strtoul(w[i].c_str() + 6, 0, 10);
    else if (w[i].rfind("width=", 0) == 0) c.width = w[i][6];
  }
  return true;
}
void showValue(const Case &c, std::ostream &os) { os << to_text(c); }

struct Shared {
  Case c;
  PMutex *m = nullptr; PSpinLock *s = nullptr; PRWLock *rw = nullptr; PCondVariable *cv_ne = nullptr, *cv_nf = nullptr;
  std::deque<long> queue; long produced = 0, consumed_sum = 0, consumed_n = 0; size_t cap = 2;
  std::atomic<long> tls_destroyed{0}; PUThreadKey *key = nullptr; std::vector<long> results; bool keyfree_round = false, no_tls = false;
  long rec_counter = 0, rec_check = 0;         // plain, protected by the lock
  volatile pint word = 0; volatile psize pword = 0;
  vector<vector<long>> olds;                   // per thread returned values
  std::atomic<long> trues{0}, tryfail{0}, contended{0};
  pthread_barrier_t bar;
  string error; std::atomic<bool> has_error{false}; std::atomic<long> t0_done{0};
  pthread_mutex_t errmx = PTHREAD_MUTEX_INITIALIZER;
  // litmus
  volatile pint x = 0, y = 0, flag = 0; long data = 0;
  volatile psize px = 0, py = 0, pflag = 0;   // pointer-width variants of the litmus words (width = p)
  std::atomic<int> r0{-1}, r1{-1};
  std::atomic<long> forbidden{0};
  std::atomic<long> spin_arrive{0};
};
Shared *G = nullptr;
void set_error(const string &e) { pthread_mutex_lock(&G->errmx); if (G->error.empty()) G->error = e; pthread_mutex_unlock(&G->errmx); G->has_error.store(true); }

// spin barrier wait: tight while the partner is running (both sides leave within nanoseconds of each other), but yields once the
// partner has evidently lost its CPU - otherwise every crossing costs a whole time slice on an oversubscribed machine
inline void spin_until_at_least(std::atomic<long> &v, long want) { for (unsigned spins = 0; v.load() < want; spins++) if (spins > 20000) sched_yield(); }
inline void noise(unsigned &st) {
  st = st * 1103515245u + 12345u;
  unsigned k = (st >> 16) & 31;
  if (k == 0) sched_yield();
  else if (k < 4) for (volatile unsigned i = 0; i < k * 20; i++) {}
}
bool do_lock(bool try_) {
  if (G->c.lock == 'm') return try_ ? p_mutex_trylock(G->m) : p_mutex_lock(G->m);
  return try_ ? p_spinlock_trylock(G->s) : p_spinlock_lock(G->s);
}
void do_unlock() { if (G->c.lock == 'm') p_mutex_unlock(G->m); else p_spinlock_unlock(G->s); }

void *worker(void *arg) {
  long ti = (long)arg;
  Shared &g = *G;
  unsigned st = g.c.noise * 2654435761u + (unsigned)ti * 40503u + 1;
  pthread_barrier_wait(&g.bar);
  const string &k = g.c.kind;
  if (k == "lockrec" || k == "trylockrec") {
    for (int i = 0; i < g.c.N; i++) {
      noise(st);
      if (k == "trylockrec") { while (!do_lock(true)) { g.tryfail++; sched_yield(); } } // no give-up count: elapsed time is never a verdict (the exact trylock semantics are decided by the scheduler engine)
      else if (!do_lock(false)) { set_error("lock returned FALSE"); return NULL; }
      long c = g.rec_counter;
      if (g.rec_check != c * 7) { set_error("protected record inconsistent inside a critical section (exclusion or visibility broken)"); do_unlock(); return NULL; }
      noise(st);
      g.rec_counter = c + 1;
      g.rec_check = (c + 1) * 7;
      do_unlock();
    }
  } else if (k == "rwrec") {
    // even threads write (exclusive), odd threads read (shared) a plain record under PRWLock; trylock variants mixed in
    for (int i = 0; i < g.c.N; i++) {
      noise(st);
      bool writer = (ti % 2) == 0, use_try = (st >> 20) % 4 == 0;
      if (writer) {
        if (use_try) { if (!p_rwlock_writer_trylock(g.rw)) continue; } else if (!p_rwlock_writer_lock(g.rw)) { set_error("writer_lock returned FALSE"); return NULL; }
        long c = g.rec_counter; if (g.rec_check != c * 7) { set_error("record inconsistent under the writer lock"); p_rwlock_writer_unlock(g.rw); return NULL; }
        noise(st); g.rec_counter = c + 1; g.rec_check = (c + 1) * 7; g.trues++;
        p_rwlock_writer_unlock(g.rw);
      } else {
        if (use_try) { if (!p_rwlock_reader_trylock(g.rw)) continue; } else if (!p_rwlock_reader_lock(g.rw)) { set_error("reader_lock returned FALSE"); return NULL; }
        long c = g.rec_counter; noise(st); if (g.rec_check != c * 7 || g.rec_counter != c) { set_error("record changed or inconsistent while a reader holds the lock"); p_rwlock_reader_unlock(g.rw); return NULL; }
        p_rwlock_reader_unlock(g.rw);
      }
    }
  } else if (k == "bbuf") {
    // bounded buffer: even threads produce N items each, odd threads consume; signal/broadcast chosen by the noise seed
    bool producer = (ti % 2) == 0; int nprod = (g.c.T + 1) / 2, ncons = g.c.T / 2;
    long quota = producer ? g.c.N : ((long)nprod * g.c.N) / ncons + (ti / 2 < ((long)nprod * g.c.N) % ncons ? 1 : 0);
    for (long i = 0; i < quota; i++) {
      noise(st);
      p_mutex_lock(g.m);
      if (producer) { while (g.queue.size() >= g.cap) p_cond_variable_wait(g.cv_nf, g.m); g.queue.push_back(ti * 1000000L + i); g.produced++; if (g.c.noise % 2) p_cond_variable_broadcast(g.cv_ne); else p_cond_variable_signal(g.cv_ne); }
      else { while (g.queue.empty()) p_cond_variable_wait(g.cv_ne, g.m); g.consumed_sum += g.queue.front(); g.queue.pop_front(); g.consumed_n++; if (g.c.noise % 3) p_cond_variable_broadcast(g.cv_nf); else p_cond_variable_signal(g.cv_nf); }
      p_mutex_unlock(g.m);
    }
  } else if (k == "ticket") {
    auto &o = g.olds[(size_t)ti];
    for (int i = 0; i < g.c.N; i++) { noise(st); o.push_back(g.c.width == 'i' ? (long)p_atomic_int_add(&g.word, 1) : (long)p_atomic_pointer_add((void *)&g.pword, 1)); }
  } else if (k == "countdown") {
    for (int i = 0; i < g.c.N; i++) { noise(st); if (p_atomic_int_dec_and_test(&g.word)) g.trues++; }
  } else if (k == "zerorace") {
    // every round the word starts at T and every thread decrements once: exactly one dec_and_test may return TRUE per round
    for (int i = 0; i < g.c.N; i++) {
      if (ti == 0) { p_atomic_int_set(&g.word, (pint)g.c.T); g.trues = 0; }
      g.spin_arrive.fetch_add(1); spin_until_at_least(g.spin_arrive, (long)g.c.T * (3 * i + 1));
      if (p_atomic_int_dec_and_test(&g.word)) g.trues++;
      g.spin_arrive.fetch_add(1); spin_until_at_least(g.spin_arrive, (long)g.c.T * (3 * i + 2));
      if (ti == 0 && g.trues != 1) { set_error("dec_and_test returned TRUE " + std::to_string(g.trues.load()) + " times in one countdown of " + std::to_string(g.c.T) + " to zero (round " + std::to_string(i) + "): exactly the decrement that reaches zero must report TRUE"); }
      g.spin_arrive.fetch_add(1); spin_until_at_least(g.spin_arrive, (long)g.c.T * (3 * i + 3));
      if (!g.error.empty()) break;
    }
  } else if (k == "casloop") {
    for (int i = 0; i < g.c.N; i++) {
      noise(st);
      if (g.c.width == 'i') { for (;;) { pint v = p_atomic_int_get(&g.word); if (p_atomic_int_compare_and_exchange(&g.word, v, v + 1)) break; g.contended++; } }
      else { for (;;) { ppointer v = p_atomic_pointer_get((void *)&g.pword); if (p_atomic_pointer_compare_and_exchange((void *)&g.pword, v, (ppointer)((psize)v + 1))) break; g.contended++; } }
    }
  } else if (k == "mix") {
    for (int i = 0; i < g.c.N; i++) { noise(st); p_atomic_int_or((puint *)&g.word, 1u << (ti % 16)); p_atomic_int_xor((puint *)&g.word, 1u << (16 + ti % 8)); p_atomic_int_and((puint *)&g.word, ~(1u << 31)); p_atomic_int_inc(&g.y); }
  } else if (k == "mp") {
    // thread 0 writes, others read; repeated N times with barriers
    for (int i = 0; i < g.c.N; i++) {
      // no verdict here depends on elapsed time: "never observed" is only reported once thread 0's set call is known to have
      // returned (seq_cst harness flag) and a later get still misses it; an error never skips the barrier (the others wait there)
      const bool pw = g.c.width == 'p';
      if (ti == 0) { g.data = 1000 + i; if (pw) p_atomic_pointer_set((void *)&g.pflag, (ppointer)(psize)(i + 1)); else p_atomic_int_set(&g.flag, i + 1); g.t0_done.store(i + 1); }
      else {
        bool seen = false;
        for (long spins = 0; !seen; spins++) {
          bool after = g.t0_done.load() == i + 1;
          if ((pw ? (long)(psize)p_atomic_pointer_get((void *)&g.pflag) : (long)p_atomic_int_get(&g.flag)) == i + 1) seen = true;
          else if (after) { set_error(string("message passing: ") + (pw ? "p_atomic_pointer_get" : "p_atomic_int_get") + " does not return the value stored by a set call that had already returned"); break; }
          else if (spins > 100000) sched_yield();
        }
        if (seen && g.data != 1000 + i) set_error("message passing: stale data read after the flag was observed (set/get are not barriers)");
      }
      pthread_barrier_wait(&g.bar);
      if (g.has_error.load()) break; // set before the barrier, so every thread leaves in the same round
    }
  } else if (k == "sb" || k == "sbset" || k == "sbget") {
    // sb: set + get; sbset: set + plain volatile load (set alone must be a full barrier); sbget: plain volatile store + get
    // tight spin barriers (monotonic counter) so that both threads issue store;load within nanoseconds of each other
    unsigned jitter = st;
    for (int i = 0; i < g.c.N; i++) {
      const bool pw = g.c.width == 'p';
      if (ti == 0) { p_atomic_int_set(&g.x, 0); p_atomic_int_set(&g.y, 0); p_atomic_pointer_set((void *)&g.px, NULL); p_atomic_pointer_set((void *)&g.py, NULL); }
      g.spin_arrive.fetch_add(1); spin_until_at_least(g.spin_arrive, 2L * (3 * i + 1));
      jitter = jitter * 1103515245u + 12345u;
      for (volatile unsigned d = 0; d < ((jitter >> 16) & 15) * (unsigned)(ti == 0); d++) {}
      if (pw) {
        ppointer one = (ppointer)(psize)1;
        if (k == "sb") {
          if (ti == 0) { p_atomic_pointer_set((void *)&g.px, one); g.r0 = (int)(psize)p_atomic_pointer_get((void *)&g.py); }
          else if (ti == 1) { p_atomic_pointer_set((void *)&g.py, one); g.r1 = (int)(psize)p_atomic_pointer_get((void *)&g.px); }
        } else if (k == "sbset") {
          if (ti == 0) { p_atomic_pointer_set((void *)&g.px, one); g.r0 = (int)g.py; }
          else if (ti == 1) { p_atomic_pointer_set((void *)&g.py, one); g.r1 = (int)g.px; }
        } else {
          if (ti == 0) { g.px = 1; g.r0 = (int)(psize)p_atomic_pointer_get((void *)&g.py); }
          else if (ti == 1) { g.py = 1; g.r1 = (int)(psize)p_atomic_pointer_get((void *)&g.px); }
        }
      } else if (k == "sb") {
        if (ti == 0) { p_atomic_int_set(&g.x, 1); g.r0 = p_atomic_int_get(&g.y); }
        else if (ti == 1) { p_atomic_int_set(&g.y, 1); g.r1 = p_atomic_int_get(&g.x); }
      } else if (k == "sbset") {
        if (ti == 0) { p_atomic_int_set(&g.x, 1); g.r0 = g.y; }
        else if (ti == 1) { p_atomic_int_set(&g.y, 1); g.r1 = g.x; }
      } else {
        if (ti == 0) { g.x = 1; g.r0 = p_atomic_int_get(&g.y); }
        else if (ti == 1) { g.y = 1; g.r1 = p_atomic_int_get(&g.x); }
      }
      g.spin_arrive.fetch_add(1); spin_until_at_least(g.spin_arrive, 2L * (3 * i + 2));
      if (ti == 0 && g.r0 == 0 && g.r1 == 0) g.forbidden++;
      g.spin_arrive.fetch_add(1); spin_until_at_least(g.spin_arrive, 2L * (3 * i + 3));
    }
  }
  return NULL;
}

struct Outcome { string verdict, klass; bool nontrivial = false; uint64_t fp = 0; };

void thr_tls_free(ppointer p) { G->tls_destroyed++; free(p); }
ppointer thr_body(ppointer arg) {
  long i = (long)arg; Shared &g = *G;
  if (!g.no_tls) {
    p_uthread_set_local(g.key, malloc(8));
    if (i % 2) p_uthread_replace_local(g.key, malloc(8));     // +1 notifier call now, +1 at exit
  }
  g.results[(size_t)i] = 1000 + i;                             // plain store, read by main after join
  if (g.keyfree_round) { pthread_barrier_wait(&g.bar); /* main releases the key reference here */ pthread_barrier_wait(&g.bar); }
  if (i % 3 == 0) p_uthread_exit((pint)(i + 5));
  return (i % 2) ? (ppointer)(psize)(4096 + i) : NULL;   // a function that "simply returned" is joined with 0 whatever it returns
}
// a thread that plibsys did not start: p_uthread_current() gives it a handle, and that handle obeys the same reference rule as any other
// ("stays valid while an explicit reference exists, released exactly once after the last one")
struct Foreign { PUThread *h = nullptr, *h2 = nullptr; pthread_barrier_t b; };
void *foreign_body(void *a) {
  Foreign &f = *(Foreign *)a;
  f.h = p_uthread_current(); f.h2 = p_uthread_current();
  pthread_barrier_wait(&f.b); /* main takes (and in one variant already drops) its reference here */ pthread_barrier_wait(&f.b);
  return NULL;
}
Outcome run_threads_case(const Case &c) {
  Outcome o; Shared g; G = &g; g.c = c;
  auto fail = [&](const string &k, const string &m) { if (o.verdict.empty()) { o.verdict = m; o.klass = k; } };
  int rounds = std::max(2, c.N / 200);
  for (int r = 0; r < rounds && o.verdict.empty(); r++) {
    // native TLS keys are never given back (p_uthread_local_free keeps the native key by design) and a process has about 1000 of them:
    // this harness process uses at most 400 PUThreadKeys over its life, later rounds run without TLS
    static int keys_used = 0;
    bool with_tls = keys_used < 400; if (with_tls) keys_used++; else vl::stats().count("thr_rounds_without_tls_native_key_budget_spent");
    g.no_tls = !with_tls;
    int T = c.T; g.results.assign((size_t)T, 0); g.tls_destroyed = 0; g.key = with_tls ? p_uthread_local_new(thr_tls_free) : NULL;
    std::vector<PUThread *> hs;
    // every other round: the key REFERENCE is released while the threads are alive and hold values ("doesn't remove the TLS key
    // itself"): the values must still be destroyed exactly once when their threads exit
    g.keyfree_round = (r % 2) == 1;
    if (g.keyfree_round) pthread_barrier_init(&g.bar, NULL, (unsigned)T + 1);
    // joinable is a pboolean, i.e. an int: every third thread is created with a true value other than 1 (flag & mask style), which the
    // library's own join / unref code treats as joinable like any non-zero value
    for (long i = 0; i < T; i++) hs.push_back(p_uthread_create(thr_body, (ppointer)i, i % 3 == 2 ? (pboolean)(4 << (i % 5)) : TRUE, i % 2 ? "rt-thread" : NULL));
    if (g.keyfree_round) { pthread_barrier_wait(&g.bar); if (g.key) p_uthread_local_free(g.key); g.key = NULL; pthread_barrier_wait(&g.bar); }
    long expect_destroy = 0;
    for (long i = 0; i < T; i++) {
      if (!hs[(size_t)i]) { fail("create", "p_uthread_create failed"); continue; }
      if (i % 4 == 1) { p_uthread_ref(hs[(size_t)i]); p_uthread_unref(hs[(size_t)i]); }
      pint code = p_uthread_join(hs[(size_t)i]);
      pint want = i % 3 == 0 ? (pint)(i + 5) : 0;
      if (code != want) fail("join-code", "join returned " + std::to_string(code) + " expected " + std::to_string(want));
      if (g.results[(size_t)i] != 1000 + i) fail("join-visibility", "value written by the thread not visible after join");
      p_uthread_unref(hs[(size_t)i]);
      if (!g.no_tls) expect_destroy += (i % 2) ? 2 : 1;
    }
    if (g.tls_destroyed != expect_destroy) fail("tls-notifier", string(g.keyfree_round ? "[key reference released while the threads were alive] " : "") + "TLS notifier ran " + std::to_string(g.tls_destroyed.load()) + " times, expected " + std::to_string(expect_destroy));
    if (g.key) p_uthread_local_free(g.key);
    if (g.keyfree_round) pthread_barrier_destroy(&g.bar);
    // foreign thread round: 0 = reference kept across the thread's exit, 1 = reference dropped while it runs, 2 = no explicit reference
    {
      Foreign f; pthread_barrier_init(&f.b, NULL, 2); pthread_t pt;
      if (pthread_create(&pt, NULL, foreign_body, &f) == 0) {
        pthread_barrier_wait(&f.b);
        int variant = r % 3;
        if (!f.h) fail("current-null", "p_uthread_current returned NULL in a thread not started by plibsys");
        else if (f.h != f.h2) fail("current-changes", "two p_uthread_current calls of one thread returned different handles");
        if (f.h && variant <= 1) p_uthread_ref(f.h);
        if (f.h && variant == 1) p_uthread_unref(f.h);
        pthread_barrier_wait(&f.b);
        pthread_join(pt, NULL);
        // the thread is gone and has dropped its own reference; ours keeps the handle alive until this unref (ASan decides: a handle
        // released at thread exit makes this a use after free)
        if (f.h && variant == 0) p_uthread_unref(f.h);
        vl::stats().klass(variant == 0 ? "foreign_thread_ref_kept_across_exit" : variant == 1 ? "foreign_thread_ref_dropped_before_exit" : "foreign_thread_no_ref");
      }
      pthread_barrier_destroy(&f.b);
    }
  }
  o.nontrivial = c.T >= 2; o.fp = vl::fnv1a(to_text(c)); vl::stats().klass("kind_thr"); G = nullptr;
  return o;
}
// many simultaneous read holds (C02: "any number of readers"): H holds are taken (lock and trylock alternating; a thread may hold the
// read lock several times), a writer must be refused as long as one hold is left and admitted once all are gone.  H walks the
// powers of two and their neighbours (packed counter fields, sign and width boundaries).
Outcome run_rwmany_case(const Case &c) {
  Outcome o;
  auto fail = [&](const string &k, const string &m) { if (o.verdict.empty()) { o.verdict = m; o.klass = k; } };
  static const int HS[] = {1, 2, 3, 127, 128, 129, 255, 256, 257, 1023, 1024, 1025, 2047, 2048, 2049, 4095, 4096, 4097, 8191, 8192, 8193, 16383, 16384, 16385};
  int H = HS[c.noise % (sizeof HS / sizeof HS[0])];
  PRWLock *rw = p_rwlock_new();
  auto writer_refused = [&](const string &when) {
    if (p_rwlock_writer_trylock(rw)) { fail("writer-admitted", "writer trylock returned TRUE " + when); p_rwlock_writer_unlock(rw); return false; }
    return true;
  };
  int held = 0;
  for (int i = 1; i <= H && o.verdict.empty(); i++) {
    pboolean ok = (i % 2) ? p_rwlock_reader_lock(rw) : p_rwlock_reader_trylock(rw);
    if (!ok) { fail("reader-refused", string(i % 2 ? "reader_lock" : "reader_trylock") + " returned FALSE for read hold number " + std::to_string(i) + " although no writer holds or waits for the lock"); break; }
    held++;
    if ((i & (i - 1)) == 0 || ((i + 1) & i) == 0 || i == H) writer_refused("while " + std::to_string(held) + " read hold(s) are outstanding");
  }
  // release one, then the rest; the writer stays out until the last one is gone
  while (held > 0 && o.verdict.empty()) {
    if (!p_rwlock_reader_unlock(rw)) { fail("reader-unlock", "reader_unlock returned FALSE with " + std::to_string(held) + " read hold(s) outstanding"); break; }
    held--;
    if (held > 0 && (held == H - 1 || (held & (held - 1)) == 0 || ((held + 1) & held) == 0)) writer_refused("after a reader unlock, while " + std::to_string(held) + " of " + std::to_string(H) + " read hold(s) are still outstanding");
  }
  if (o.verdict.empty()) {
    if (!p_rwlock_writer_trylock(rw)) fail("writer-refused", "writer trylock returned FALSE after all " + std::to_string(H) + " read holds were released (the lock is free)");
    else { p_rwlock_writer_unlock(rw); if (!p_rwlock_reader_trylock(rw)) fail("reader-refused", "reader trylock on the free lock returned FALSE after the " + std::to_string(H) + "-hold round"); else p_rwlock_reader_unlock(rw); }
  }
  if (o.verdict.empty()) p_rwlock_free(rw);   // a lock in a broken state is leaked rather than freed
  o.nontrivial = H >= 128; o.fp = vl::fnv1a("rwmany " + std::to_string(H));
  vl::stats().klass("kind_rwmany_h" + std::to_string(H >= 2047 ? 2047 : H >= 127 ? 127 : 1) + "plus");
  return o;
}
// a reader behind a WAITING writer (C02: read mode is grantable whenever no writer HOLDS the lock; "several readers can hold the lock at the
// same time"; rounds in which the first reader leaves only after the second one has entered must run to completion).  Reader A holds, writer
// W is parked inside p_rwlock_writer_lock, then reader B calls p_rwlock_reader_lock: the call has to return while A still holds.  The
// verdict is a state, not a time: B asleep in a futex wait inside its lock call (two looks one second apart) while only A holds the lock.
static bool tid_parked(pid_t tid) {
  char p[96], b[512]; snprintf(p, sizeof p, "/proc/self/task/%d/stat", (int)tid);
  int fd = open(p, O_RDONLY); if (fd < 0) return false; ssize_t n = read(fd, b, sizeof b - 1); close(fd); if (n <= 0) return false; b[n] = 0;
  const char *rp = strrchr(b, ')'); if (!rp || rp[1] != ' ' || rp[2] != 'S') return false;
  snprintf(p, sizeof p, "/proc/self/task/%d/syscall", (int)tid);
  fd = open(p, O_RDONLY); if (fd < 0) return false; n = read(fd, b, sizeof b - 1); close(fd); if (n <= 0) return false; b[n] = 0;
  return atoi(b) == 202;   // futex
}
struct RwWait { PRWLock *rw = nullptr; std::atomic<int> a_held{0}, w_about{0}, w_got{0}, b_go{0}, b_got{0}, a_release{0}; std::atomic<pid_t> tid_w{0}, tid_b{0}; };
RwWait *RWW = nullptr;
static void nap_ms(long ms) { struct timespec ts = {ms / 1000, (ms % 1000) * 1000000L}; nanosleep(&ts, NULL); }
void *rww_a(void *) { RwWait &g = *RWW; p_rwlock_reader_lock(g.rw); g.a_held.store(1); while (!g.a_release.load()) nap_ms(2); g.a_held.store(0); p_rwlock_reader_unlock(g.rw); return NULL; }
void *rww_w(void *) { RwWait &g = *RWW; while (!g.a_held.load()) nap_ms(1); g.tid_w.store((pid_t)syscall(SYS_gettid)); g.w_about.store(1); p_rwlock_writer_lock(g.rw); g.w_got.store(g.a_held.load() ? 2 : 1); p_rwlock_writer_unlock(g.rw); return NULL; }
void *rww_b(void *) { RwWait &g = *RWW; while (!g.b_go.load()) nap_ms(1); g.tid_b.store((pid_t)syscall(SYS_gettid)); p_rwlock_reader_lock(g.rw); g.b_got.store(1); p_rwlock_reader_unlock(g.rw); return NULL; }
Outcome run_rwwait_case(const Case &c) {
  Outcome o; RwWait g; RWW = &g; g.rw = p_rwlock_new();
  pthread_t a, w, b; pthread_create(&a, NULL, rww_a, NULL); pthread_create(&w, NULL, rww_w, NULL); pthread_create(&b, NULL, rww_b, NULL);
  // wait until the writer sleeps inside its lock call (two looks 20 ms apart); give up without a verdict after 20 s
  bool w_parked = false;
  for (int i = 0; i < 1000 && !w_parked && !g.w_got.load(); i++) { nap_ms(20); if (g.w_about.load() && tid_parked(g.tid_w.load())) { nap_ms(20); w_parked = tid_parked(g.tid_w.load()); } }
  if (g.w_got.load() == 2) { o.klass = "exclusion"; o.verdict = "p_rwlock_writer_lock returned while a reader holds the lock"; }
  bool decided = false;
  if (w_parked && o.verdict.empty()) {
    g.b_go.store(1);
    for (int i = 0; i < 3000 && !g.b_got.load(); i++) {
      nap_ms(20);
      if (i >= 25 && !g.b_got.load() && g.tid_b.load() && tid_parked(g.tid_b.load())) { nap_ms(1000); if (!g.b_got.load() && tid_parked(g.tid_b.load()) && !g.w_got.load()) { decided = true; break; } }
    }
    if (decided) { o.klass = "reader-behind-waiting-writer"; o.verdict = "p_rwlock_reader_lock does not return although only a reader holds the lock: the calling thread sleeps in a futex wait (two looks one second apart) behind a writer that is itself still waiting - two readers cannot hold the lock together, and a round in which the first reader leaves after the second has entered never completes"; }
    else if (g.b_got.load()) vl::stats().klass("rwwait_second_reader_admitted_while_a_writer_waits");
    else vl::stats().count("rwwait_inconclusive");
  } else if (o.verdict.empty()) vl::stats().count("rwwait_writer_never_parked_inconclusive");
  g.a_release.store(1); g.b_go.store(1);
  pthread_join(a, NULL); pthread_join(w, NULL); pthread_join(b, NULL);
  p_rwlock_free(g.rw); RWW = nullptr;
  o.nontrivial = w_parked; o.fp = vl::fnv1a(to_text(c)); vl::stats().klass("kind_rwwait");
  return o;
}
// a burst of signals under ONE lock hold (C03: "a signal issued while threads are waiting wakes at least one of them ... a consumer that
// re-checks its predicate in a loop under the mutex never misses an event", for any number of events).  The consumer sleeps in
// p_cond_variable_wait; the producer takes the mutex and does `++items; signal` (or broadcast) B times before it unlocks, B from a list that
// contains the powers of two around which a wake-up generation counter of 8 / 16 bits would wrap.  Verdict by state: after the producer
// has unlocked, the consumer still sleeps in a futex wait (two looks one second apart) although its predicate is true.
struct SigBurst { PMutex *m = nullptr; PCondVariable *cv = nullptr; long items = 0; std::atomic<int> waiting{0}, woke{0}; std::atomic<pid_t> tid{0}; };
SigBurst *SB = nullptr;
void *sigburst_consumer(void *) {
  SigBurst &g = *SB; g.tid.store((pid_t)syscall(SYS_gettid));
  p_mutex_lock(g.m); g.waiting.store(1);
  while (g.items == 0) p_cond_variable_wait(g.cv, g.m);
  p_mutex_unlock(g.m); g.woke.store(1);
  return NULL;
}
Outcome run_sigburst_one(const Case &c, long B, bool bc);
Outcome run_sigburst_case(const Case &c) {
  // every generated case walks the whole list, signals and broadcasts
  static const long bursts[] = {1, 2, 255, 256, 257, 1000, 65535, 65536, 65537, 131072, 3 * 65536L};
  Outcome o;
  for (long B : bursts) for (int bc = 0; bc < 2; bc++) { o = run_sigburst_one(c, B, bc == 1); if (!o.verdict.empty()) return o; }
  o.nontrivial = true; o.fp = vl::fnv1a(to_text(c));
  return o;
}
Outcome run_sigburst_one(const Case &c, long B, bool bc) {
  (void)c;
  Outcome o; SigBurst g; SB = &g; g.m = p_mutex_new(); g.cv = p_cond_variable_new();
  pthread_t t; pthread_create(&t, NULL, sigburst_consumer, NULL);
  bool parked = false;
  for (int i = 0; i < 1000 && !parked; i++) { nap_ms(10); if (g.waiting.load() && tid_parked(g.tid.load())) { nap_ms(20); parked = tid_parked(g.tid.load()); } }
  p_mutex_lock(g.m);
  for (long i = 0; i < B; i++) { ++g.items; if (bc) p_cond_variable_broadcast(g.cv); else p_cond_variable_signal(g.cv); }
  p_mutex_unlock(g.m);
  bool stuck = false;
  for (int i = 0; i < 3000 && !g.woke.load(); i++) { nap_ms(20); if (i >= 25 && !g.woke.load() && tid_parked(g.tid.load())) { nap_ms(1000); if (!g.woke.load() && tid_parked(g.tid.load())) { stuck = true; break; } } }
  if (stuck) { o.klass = "signal-burst-lost"; o.verdict = string("the consumer still sleeps in p_cond_variable_wait (futex wait, two looks one second apart) although ") + std::to_string(B) + (bc ? " broadcasts" : " signals") + " were issued while it was waiting and its predicate has been true since the first of them"; }
  else if (!g.woke.load()) vl::stats().count("sigburst_inconclusive");
  // let the consumer go whatever happened
  for (int i = 0; i < 200 && !g.woke.load(); i++) { p_mutex_lock(g.m); p_cond_variable_broadcast(g.cv); p_mutex_unlock(g.m); nap_ms(10); }
  if (g.woke.load()) { pthread_join(t, NULL); p_cond_variable_free(g.cv); p_mutex_free(g.m); } else vl::stats().count("sigburst_consumer_abandoned");
  SB = nullptr;
  o.nontrivial = parked && B >= 256; o.fp = vl::fnv1a("sigburst " + std::to_string(B) + (bc ? "b" : "s"));
  vl::stats().klass(string("kind_sigburst_") + (B >= 65536 ? "65536plus" : B >= 256 ? "256plus" : "small") + (parked ? "" : "_consumer_not_parked_first"));
  return o;
}
// threads of ONE process opening named semaphores at the same time (C06: "all PSemaphore handles of one name ... share one counter across
// threads and processes ... a release adds one unit"; "other names are unaffected").  The creator makes the name with value 0; T threads,
// released together by a spin barrier, each OPEN the name, release one unit and free the handle, R times; a second name, made by one of
// the threads in the same rounds, is only opened and freed.  Oracle without any waiting: every open succeeds, and at the end the platform
// counter behind the expected system name holds exactly T*R units, the second name's counter its initial value.
struct SemOpen { string name, other; int T = 2, R = 100; std::atomic<long> arrive{0}; std::atomic<long> null_opens{0}; };
SemOpen *SO = nullptr;
void *semopen_thread(void *arg) {
  long ti = (long)arg; SemOpen &g = *SO;
  for (int r = 0; r < g.R; r++) {
    g.arrive.fetch_add(1); spin_until_at_least(g.arrive, (long)g.T * (r + 1));
    PSemaphore *s = p_semaphore_new(g.name.c_str(), 7, P_SEM_ACCESS_OPEN, NULL);
    if (!s) { g.null_opens.fetch_add(1); continue; }
    p_semaphore_release(s, NULL); p_semaphore_free(s);
    if (ti == 1) { PSemaphore *o2 = p_semaphore_new(g.other.c_str(), 3, P_SEM_ACCESS_OPEN, NULL); if (o2) p_semaphore_free(o2); else g.null_opens.fetch_add(1); }
  }
  return NULL;
}
Outcome run_semopen_case(const Case &c) {
  Outcome o; SemOpen g; SO = &g;
  struct timespec ts; clock_gettime(CLOCK_MONOTONIC, &ts);
  g.name = "vrt" + std::to_string((long)getpid()) + "_" + std::to_string((long)ts.tv_sec) + std::to_string((long)ts.tv_nsec) + "a"; g.other = g.name + "b";
  g.T = std::max(2, std::min(c.T, 8)); g.R = std::max(20, std::min(c.N / 10, 400));
  PSemaphore *own = p_semaphore_new(g.name.c_str(), 0, P_SEM_ACCESS_CREATE, NULL), *own2 = p_semaphore_new(g.other.c_str(), 3, P_SEM_ACCESS_CREATE, NULL);
  if (!own || !own2) { o.klass = "semopen-setup"; o.verdict = "creating the semaphores failed"; }
  else {
    std::vector<pthread_t> ts_((size_t)g.T);
    for (long i = 0; i < g.T; i++) pthread_create(&ts_[(size_t)i], NULL, semopen_thread, (void *)i);
    for (auto &t : ts_) pthread_join(t, NULL);
    auto value_of = [](const string &n) { sem_t *pk = sem_open(("/" + vi::key13(n + "_p_sem_object")).c_str(), 0); int v = -1000000; if (pk != SEM_FAILED) { sem_getvalue(pk, &v); sem_close(pk); } return v; };
    int v = value_of(g.name), v2 = value_of(g.other); long want = (long)g.T * g.R;
    if (g.null_opens.load()) { o.klass = "concurrent-open-failed"; o.verdict = std::to_string(g.null_opens.load()) + " OPEN-mode p_semaphore_new call(s) on an existing name failed while other threads of the process were opening semaphores at the same time"; }
    else if (v != want) { o.klass = "concurrent-open-other-counter"; o.verdict = std::to_string(g.T) + " threads each opened the name, released one unit and freed the handle " + std::to_string(g.R) + " times: the name's counter holds " + std::to_string(v) + " units instead of " + std::to_string(want) + " (handles opened at the same time by threads of one process did not all refer to the name's counter)"; }
    else if (v2 != 3) { o.klass = "concurrent-open-other-name"; o.verdict = "a second name that was only opened and freed meanwhile now holds " + std::to_string(v2) + " instead of its initial 3 units"; }
  }
  if (own) { p_semaphore_take_ownership(own); p_semaphore_free(own); } if (own2) { p_semaphore_take_ownership(own2); p_semaphore_free(own2); }
  sem_unlink(("/" + vi::key13(g.name + "_p_sem_object")).c_str()); sem_unlink(("/" + vi::key13(g.other + "_p_sem_object")).c_str());
  SO = nullptr;
  o.nontrivial = g.T >= 2; o.fp = vl::fnv1a(to_text(c)); vl::stats().klass("kind_semopen_T" + std::to_string(g.T));
  return o;
}
// set racing with a read-modify-write (C04: "under any concurrent mix the final value and the returned old values are those of some
// sequential order").  Thread B increments the word and then bumps its own published counter; thread A reads that counter (c0), sets the
// word to a fresh, widely spaced base, reads the word back (g) and reads the counter again (c1).  In every sequential order the set is
// followed only by increments that B had not yet counted at c0 and, at most, one more than it has counted at c1: base <= g <= base + (c1 - c0) + 1.
// Exact, no timing: a set whose store is lost or torn shows as g far below base.  int and pointer-width words.
struct SetInc { volatile pint w = 0; volatile psize pw = 0; std::atomic<long> counted{0}; std::atomic<int> stop{0}; bool ptr = false; string bad; };
SetInc *SI = nullptr;
void *setinc_b(void *) {
  SetInc &g = *SI;
  while (!g.stop.load(std::memory_order_relaxed)) { if (g.ptr) p_atomic_pointer_add((void *)&g.pw, 1); else p_atomic_int_inc(&g.w); g.counted.fetch_add(1); }
  return NULL;
}
Outcome run_setinc_case(const Case &c) {
  Outcome o; SetInc g; SI = &g; g.ptr = c.width == 'p';
  pthread_t b; pthread_create(&b, NULL, setinc_b, NULL);
  long rounds = std::max(2000, c.N * 20); long lost = 0;
  for (long i = 1; i <= rounds && g.bad.empty(); i++) {
    long c0 = g.counted.load();
    long base = g.ptr ? i * 100000000L : (i % 20) * 100000000L + 1000;   // int: stays below INT_MAX, successive bases far apart
    if (g.ptr) p_atomic_pointer_set((void *)&g.pw, (ppointer)(psize)base); else p_atomic_int_set(&g.w, (pint)base);
    long got = g.ptr ? (long)(psize)p_atomic_pointer_get((void *)&g.pw) : (long)p_atomic_int_get(&g.w);
    long c1 = g.counted.load();
    if (got < base || got > base + (c1 - c0) + 1) { lost++; g.bad = string(g.ptr ? "p_atomic_pointer_set" : "p_atomic_int_set") + "(" + std::to_string(base) + ") returned, and the word read right afterwards holds " + std::to_string(got) + " while another thread was incrementing it (at most " + std::to_string(c1 - c0 + 1) + " increments can lie between): no sequential order of the set and the increments gives that value - the store was lost"; }
    if ((i & 1023) == 0) sched_yield();
  }
  g.stop.store(1); pthread_join(b, NULL);
  if (!g.bad.empty()) { o.klass = "set-vs-rmw"; o.verdict = g.bad; }
  SI = nullptr;
  o.nontrivial = g.counted.load() > 1000; o.fp = vl::fnv1a(to_text(c)); vl::stats().klass(string("kind_setinc_") + (g.ptr ? "ptr" : "int"));
  return o;
}
// long hold: one thread keeps the lock for seconds while another sits in the blocking lock call the whole time (hundreds of millions of
// failed acquisition attempts for a spinlock): the waiter's call may return only after the release.  One-sided: a slow machine makes the
// waiter try fewer times, never makes a correct lock fail.
struct LongHold { PMutex *m = nullptr; PSpinLock *s = nullptr; char lock = 's'; std::atomic<int> held{0}; std::atomic<int> violated{0}; long hold_ms = 3000; pthread_t waiter; std::atomic<int> waiter_started{0}; };
LongHold *LH = nullptr;
void *longhold_holder(void *) {
  LongHold &g = *LH;
  if (g.lock == 'm') p_mutex_lock(g.m); else p_spinlock_lock(g.s);
  g.held.store(1);
  // hold until the WAITER has burnt hold_ms of CPU time inside its lock call (a spinning waiter: that many attempts whatever the machine
  // load) or, for a sleeping waiter (mutex), until hold_ms of wall time have passed; never longer than 20x that in wall time
  while (!g.waiter_started.load()) sched_yield();
  clockid_t wc; bool have = pthread_getcpuclockid(g.waiter, &wc) == 0;
  struct timespec w0, c0; clock_gettime(CLOCK_MONOTONIC, &w0); if (have) clock_gettime(wc, &c0);
  for (;;) {
    struct timespec ts = {0, 20000000L}; nanosleep(&ts, NULL);
    struct timespec w1, c1; clock_gettime(CLOCK_MONOTONIC, &w1);
    double wall = (w1.tv_sec - w0.tv_sec) * 1e3 + (w1.tv_nsec - w0.tv_nsec) / 1e6, cpu = 0;
    if (have) { if (clock_gettime(wc, &c1) != 0) break; /* the waiter is gone: its lock call returned */ cpu = (c1.tv_sec - c0.tv_sec) * 1e3 + (c1.tv_nsec - c0.tv_nsec) / 1e6; }
    if (g.lock == 'm' ? wall >= g.hold_ms : cpu >= g.hold_ms) break;   // a sleeping waiter is given the whole hold time on the wall clock
    if (wall >= 20.0 * g.hold_ms) break;
  }
  g.held.store(2);                                   // about to release
  if (g.lock == 'm') p_mutex_unlock(g.m); else p_spinlock_unlock(g.s);
  return NULL;
}
void *longhold_waiter(void *) {
  LongHold &g = *LH;
  while (g.held.load() == 0) sched_yield();
  g.waiter_started.store(1);
  if (g.lock == 'm') p_mutex_lock(g.m); else p_spinlock_lock(g.s);
  if (g.held.load() == 1) g.violated.store(1);       // the holder has not even started to release
  if (g.lock == 'm') p_mutex_unlock(g.m); else p_spinlock_unlock(g.s);
  return NULL;
}
Outcome run_longhold_one(const Case &c);
Outcome run_longhold_case(const Case &c) {
  // lock 'b': the spinlock and the mutex one after the other (every generated long-hold case does both)
  if (c.lock != 'b') return run_longhold_one(c);
  Case s1 = c; s1.lock = 's'; Outcome o = run_longhold_one(s1); if (!o.verdict.empty()) return o;
  Case m1 = c; m1.lock = 'm'; Outcome o2 = run_longhold_one(m1); o2.fp = vl::fnv1a(to_text(c)); return o2;
}
Outcome run_longhold_one(const Case &c) {
  Outcome o; LongHold g; LH = &g;
  g.lock = c.lock; g.hold_ms = std::max(500, std::min(c.N, 20000));
  g.m = p_mutex_new(); g.s = p_spinlock_new();
  pthread_t a; pthread_create(&g.waiter, NULL, longhold_waiter, NULL); pthread_create(&a, NULL, longhold_holder, NULL);
  pthread_join(a, NULL); pthread_join(g.waiter, NULL);
  if (g.violated.load()) { o.klass = "long-hold"; o.verdict = string(c.lock == 'm' ? "p_mutex_lock" : "p_spinlock_lock") + " returned in the waiting thread while the holder was still inside its critical section (held until the waiter had spent " + std::to_string(g.hold_ms) + " ms " + (c.lock == 'm' ? "waiting" : "of CPU time") + " in the call)"; }
  p_mutex_free(g.m); p_spinlock_free(g.s);
  o.nontrivial = true; o.fp = vl::fnv1a(to_text(c)); vl::stats().klass(string("kind_longhold_") + c.lock);
  LH = nullptr;
  return o;
}
// bare polling loops: `while (!trylock (l)) ++n;` with nothing else in the loop body, and two trylocks back to back.  What a caller's
// compiler may do with such code depends on how the HEADERS declare the functions (a `pure`/`const` attribute lets it hoist or merge the
// calls), so this is compiled here, at the harness's optimisation level, against the headers of the tree under test.
struct TryPoll { PMutex *m = nullptr; PSpinLock *s = nullptr; std::atomic<int> held{0}, got{0}, bad{0}; pthread_t poller; std::atomic<int> poller_started{0}; };
TryPoll *TP = nullptr;
void *trypoll_poller_spin(void *) {
  TryPoll &g = *TP; unsigned long n = 0;
  while (g.held.load() == 0) sched_yield();
  g.poller_started.store(1);
  while (!p_spinlock_trylock(g.s)) ++n;                 // the loop under test: nothing but the call
  if (g.held.load() == 1) g.bad.store(1);               // "succeeded" while the holder is inside
  g.got.store(1);
  p_spinlock_unlock(g.s);
  return (void *)n;
}
void *trypoll_poller_mutex(void *) {
  TryPoll &g = *TP; unsigned long n = 0;
  while (g.held.load() == 0) sched_yield();
  g.poller_started.store(1);
  while (!p_mutex_trylock(g.m)) ++n;
  if (g.held.load() == 1) g.bad.store(1);
  g.got.store(1);
  p_mutex_unlock(g.m);
  return (void *)n;
}
Outcome run_trypoll_case(const Case &c) {
  Outcome o; TryPoll g; TP = &g;
  auto fail = [&](const string &k, const string &m) { if (o.verdict.empty()) { o.verdict = m; o.klass = k; } };
  g.m = p_mutex_new(); g.s = p_spinlock_new();
  bool spin = c.lock == 's';
  // two trylocks in a row on a free lock: the first takes it, the second must see it taken
  {
    pboolean a = spin ? p_spinlock_trylock(g.s) : p_mutex_trylock(g.m);
    pboolean b = spin ? p_spinlock_trylock(g.s) : p_mutex_trylock(g.m);
    if (!a) fail("trylock-free", "trylock on a free, uncontended lock returned FALSE");
    else if (b) fail("trylock-held", "two trylock calls in a row both returned TRUE (the second one while the lock is held)");
    if (a) { if (spin) p_spinlock_unlock(g.s); else p_mutex_unlock(g.m); }
    if (b) { /* state unknown */ }
  }
  if (o.verdict.empty()) {
    if (spin) p_spinlock_lock(g.s); else p_mutex_lock(g.m);
    g.held.store(1);
    pthread_create(&g.poller, NULL, spin ? trypoll_poller_spin : trypoll_poller_mutex, NULL);
    while (!g.poller_started.load()) sched_yield();
    struct timespec ts = {0, 30000000L}; nanosleep(&ts, NULL);   // the poller's first attempts fail
    g.held.store(2);
    if (spin) p_spinlock_unlock(g.s); else p_mutex_unlock(g.m);
    // the lock is free and uncontended now: a trylock has to succeed.  The poller does nothing but call it, so once it has burnt 2 s of CPU
    // time after the release without getting the lock, no call it made succeeded (or it makes none any more)
    clockid_t wc; bool have = pthread_getcpuclockid(g.poller, &wc) == 0; struct timespec c0 = {0, 0}; if (have && clock_gettime(wc, &c0) != 0) have = false;
    struct timespec w0; clock_gettime(CLOCK_MONOTONIC, &w0);
    for (;;) {
      if (g.got.load()) break;
      struct timespec t2 = {0, 10000000L}; nanosleep(&t2, NULL);
      struct timespec c1, w1; clock_gettime(CLOCK_MONOTONIC, &w1); double cpu = 0;
      if (have && clock_gettime(wc, &c1) == 0) cpu = (c1.tv_sec - c0.tv_sec) + (c1.tv_nsec - c0.tv_nsec) / 1e9;   // (fails once the thread has exited)
      if (g.got.load()) break;
      if (cpu >= 2.0 && cpu < 1e6) {
        string v = string(spin ? "p_spinlock_trylock" : "p_mutex_trylock") + " in a bare polling loop never succeeded although the lock has been free and uncontended while the polling thread spent 2 s of CPU time calling it";
        vl::report_failure("rt", to_text(c), vl::env("VERIF_PROP", "C01") + ":trylock-poll: " + v, "trylock-poll"); vl::stats().flush();
        printf("REPLAY-FAIL %s:trylock-poll: %s\n", vl::env("VERIF_PROP", "C01").c_str(), v.c_str()); fflush(stdout);
        _exit(1);   // the polling thread cannot be stopped
      }
      if ((w1.tv_sec - w0.tv_sec) > 120) { o.nontrivial = false; break; }   // starved machine: decides nothing
    }
    if (g.got.load()) { pthread_join(g.poller, NULL); if (g.bad.load()) fail("trylock-held", "a bare trylock polling loop ended (trylock \"returned TRUE\") while the holder was still inside its critical section"); }
  }
  if (o.verdict.empty() && g.got.load()) { p_mutex_free(g.m); p_spinlock_free(g.s); }
  o.nontrivial = true; o.fp = vl::fnv1a(to_text(c)); vl::stats().klass(string("kind_trypoll_") + c.lock);
  TP = nullptr;
  return o;
}
Outcome run_case(const Case &c) {
  // "reinit_<kind>": the same program in a second lifetime of the library (shutdown + init first) - state that a module initialises once
  // per process instead of once per init shows only there (at most 40 cycles per harness process: every init takes a native TLS key)
  if (c.kind.rfind("reinit_", 0) == 0) {
    static int cycles = 0;
    if (cycles < 40) { cycles++; p_libsys_shutdown(); p_libsys_init(); vl::stats().klass("library_reinitialised_before_the_case"); }
    Case d = c; d.kind = c.kind.substr(7); Outcome o = run_case(d); o.fp = vl::fnv1a(to_text(c)); return o;
  }
  if (c.kind == "thr") return run_threads_case(c);
  if (c.kind == "trypoll") return run_trypoll_case(c);
  if (c.kind == "longhold") return run_longhold_case(c);
  if (c.kind == "rwmany") return run_rwmany_case(c);
  if (c.kind == "rwwait") return run_rwwait_case(c);
  if (c.kind == "sigburst") return run_sigburst_case(c);
  if (c.kind == "semopen") return run_semopen_case(c);
  if (c.kind == "setinc") return run_setinc_case(c);
  Outcome o;
  Shared g; G = &g;
  g.c = c;
  if (g.c.kind.rfind("sb", 0) == 0) g.c.T = 2;
  int T = g.c.T;
  g.m = p_mutex_new(); g.s = p_spinlock_new(); g.rw = p_rwlock_new(); g.cv_ne = p_cond_variable_new(); g.cv_nf = p_cond_variable_new(); g.cap = 1 + c.noise % 3;
  if (c.kind == "bbuf" && g.c.T < 2) g.c.T = 2;
  g.olds.assign((size_t)T, {});
  if (c.kind == "countdown") g.word = (pint)((long)T * c.N);
  pthread_barrier_init(&g.bar, NULL, (unsigned)T);
  vector<pthread_t> th((size_t)T);
  for (long i = 0; i < T; i++) pthread_create(&th[(size_t)i], NULL, worker, (void *)i);
  for (int i = 0; i < T; i++) pthread_join(th[(size_t)i], NULL);
  long total = (long)T * c.N;
  auto fail = [&](const string &k, const string &m) { if (o.verdict.empty()) { o.verdict = m; o.klass = k; } };
  if (!g.error.empty()) fail(c.kind, g.error);
  if (c.kind == "lockrec" || c.kind == "trylockrec") {
    if (g.rec_counter != total) fail("lost-update", "lost update under " + string(c.lock == 'm' ? "PMutex" : "PSpinLock") + ": counter " + std::to_string(g.rec_counter) + " != " + std::to_string(total));
    o.nontrivial = T >= 2 && total >= 1000;
  } else if (c.kind == "rwrec") {
    if (g.rec_counter != g.trues) fail("lost-update", "lost update under the writer lock: counter " + std::to_string(g.rec_counter) + " != writer sections " + std::to_string(g.trues.load()));
    o.nontrivial = T >= 3;
  } else if (c.kind == "bbuf") {
    int nprod = (T + 1) / 2; long want_n = (long)nprod * c.N, want_sum = 0;
    for (int p = 0; p < nprod; p++) for (long i = 0; i < c.N; i++) want_sum += (long)(2 * p) * 1000000L + i;
    if (g.consumed_n != want_n || g.consumed_sum != want_sum || !g.queue.empty()) fail("exchange", "producer/consumer exchange lost or duplicated items: consumed " + std::to_string(g.consumed_n) + " of " + std::to_string(want_n));
    o.nontrivial = T >= 3;
  } else if (c.kind == "ticket") {
    vector<long> all; for (auto &v : g.olds) all.insert(all.end(), v.begin(), v.end());
    std::sort(all.begin(), all.end());
    for (size_t i = 0; i < all.size(); i++) if (all[i] != (long)i) { fail("ticket", "atomic add returned old values that are not a permutation of 0..n-1 (value " + std::to_string(all[i]) + " at rank " + std::to_string(i) + "): read-modify-write not indivisible"); break; }
    long fin = c.width == 'i' ? (long)g.word : (long)g.pword;
    if (fin != total) fail("ticket", "final value " + std::to_string(fin) + " != number of increments " + std::to_string(total));
    // interleaving measure: some thread's tickets are not one contiguous block
    for (auto &v : g.olds) if (!v.empty() && v.back() - v.front() + 1 != (long)v.size()) o.nontrivial = true;
  } else if (c.kind == "zerorace") { o.nontrivial = T >= 2;
  } else if (c.kind == "countdown") {
    if (g.trues != 1) fail("countdown", "dec_and_test returned TRUE " + std::to_string(g.trues.load()) + " times for a countdown to zero (expected exactly once)");
    if (g.word != 0) fail("countdown", "final value not 0");
    o.nontrivial = T >= 2;
  } else if (c.kind == "casloop") {
    long fin = c.width == 'i' ? (long)g.word : (long)g.pword;
    if (fin != total) fail("casloop", "compare-and-exchange increment loop lost updates: " + std::to_string(fin) + " != " + std::to_string(total));
    o.nontrivial = g.contended > 0;
  } else if (c.kind == "mix") {
    unsigned want = 0; for (int t = 0; t < T; t++) { want |= 1u << (t % 16); }
    // xor bits toggle N times per thread sharing the bit
    unsigned got = (unsigned)g.word;
    if ((got & 0xFFFF) != want) fail("mix", "or-mix lost bits");
    if (g.y != (pint)total) fail("mix", "inc lost updates");
    o.nontrivial = T >= 2;
  } else if (c.kind == "mp") { o.nontrivial = T >= 2; }
  else if (c.kind.rfind("sb", 0) == 0) {
    if (g.forbidden > 0) fail("store-buffering", string(c.kind == "sbset" ? "[set + plain load] " : c.kind == "sbget" ? "[plain store + get] " : "") + "both threads read 0 after writing 1 in " + std::to_string(g.forbidden.load()) + " of " + std::to_string(c.N) + " rounds: " + (c.width == 'p' ? "p_atomic_pointer_set/get" : "p_atomic_int_set/get") + " are not full barriers");
    o.nontrivial = true;
  }
  pthread_barrier_destroy(&g.bar);
  p_mutex_free(g.m); p_spinlock_free(g.s); p_rwlock_free(g.rw); p_cond_variable_free(g.cv_ne); p_cond_variable_free(g.cv_nf);
  o.fp = vl::fnv1a(to_text(c));
  vl::stats().klass("kind_" + c.kind + (c.kind.find("lock") != string::npos ? string("_") + c.lock : (c.kind.rfind("sb", 0) == 0 || c.kind == "mp" || c.kind == "ticket" || c.kind == "casloop") ? string("_") + c.width : string("")));
  G = nullptr;
  return o;
}

rc::Gen<int> rng(int lo, int hi) { return rc::gen::resize(100, rc::gen::inRange(lo, hi)); }
rc::Gen<Case> genCase(bool tsan, bool thorough) {
  using namespace rc;
  int scale = (tsan ? 1 : 8) * (thorough ? 2 : 1); // thorough: more cases (driver), twice the rounds, more threads in the uninstrumented builds
  vector<string> kinds;
  { std::stringstream ss(vl::env("VERIF_KINDS", "lockrec,lockrec,trylockrec,ticket,ticket,countdown,casloop,mix,mp,sb")); string k; while (std::getline(ss, k, ',')) if (!k.empty()) kinds.push_back(k); }
  return gen::map(gen::tuple(gen::elementOf(kinds), rng(2, (thorough && !tsan) ? 13 : 9), rng(200, 2000), gen::element('m', 's'), rng(0, 1000000), gen::element('i', 'i', 'p')),
                  [scale, tsan](const std::tuple<string, int, int, char, int, char> &t) {
                    Case c; c.kind = std::get<0>(t); c.T = std::get<1>(t); c.N = std::get<2>(t) * scale; c.lock = std::get<3>(t); c.noise = (unsigned)std::get<4>(t); c.width = std::get<5>(t);
                    if (c.kind == "mp") c.N = std::min(c.N, 3000);
                    if (c.kind.rfind("sb", 0) == 0) { c.N = tsan ? 2000 : 300000; c.T = 2; c.width = (c.noise % 2) ? 'p' : 'i'; }
                    if (c.kind == "mp") c.width = (c.noise % 2) ? 'p' : 'i';
                    if (c.kind == "zerorace") { c.N = tsan ? 3000 : 60000; c.T = std::min(c.T, 6); }
                    if (c.kind == "bbuf") { c.N = std::min(c.N, tsan ? 120 : 3000); if (c.T % 2) c.T++; c.T = std::min(c.T, tsan ? 6 : 12); }
                    if (c.kind == "thr") { c.T = std::min(c.T, 8); c.N = std::min(c.N, 2000); }
                    if (c.kind == "trylockrec") c.N = std::min(c.N, 3000);
                    if (c.kind == "longhold") { c.T = 2; c.N = (int)vl::envl("VERIF_HOLD_MS", 3500); c.lock = 'b'; }
                    // a spinlock with more spinning threads than free cores degenerates into whole time slices burnt per hand-over
                    if ((c.kind == "lockrec" || c.kind == "trylockrec") && c.lock == 's') c.T = std::min(c.T, tsan ? 4 : 8);
                    return c; });
}

int run_generated() {
  bool tsan = vl::env("VERIF_CONFIG_TSAN", "0") == "1";
  bool thorough = vl::env("VERIF_TIER", "quick") == "thorough";
  int failed = 0;
  bool ok = rc::check("real-thread generated programs", [&] {
    Case c = *genCase(tsan, thorough);
    string text = to_text(c);
    vl::set_current_case("rt", text);
    Outcome o = run_case(c);
    vl::stats().record(text, o.nontrivial, o.fp);
    if (!o.verdict.empty()) { vl::report_failure("rt", text, vl::env("VERIF_PROP", "C01") + ":" + o.klass + ": " + o.verdict, o.klass); RC_FAIL(o.verdict); }
  });
  if (!ok) failed++;
  return failed;
}
string run_replay(const string &text) {
  Case c;
  if (!from_text(text, c)) return "unparsable case";
  // real-thread findings may need a few runs to reproduce
  for (int i = 0; i < 5; i++) { Outcome o = run_case(c); if (!o.verdict.empty()) return vl::env("VERIF_PROP", "C01") + ":" + o.klass + ": " + o.verdict; }
  return "";
}
} // namespace

int main(int argc, char **argv) {
  p_libsys_init();
  return vl::harness_main(argc, argv, run_generated, run_replay);
}
