// ipcx.cpp - multi-process step executor for the named IPC objects (C06 semaphores, C07 shared
// memory, C08 shm buffer across processes).  The coordinator (this process; rapidcheck) forks P
// workers per case; each worker executes steps against the real library and answers over a
// socketpair.  The coordinator holds the reference model.  IPC libc calls made by the library
// objects (psemaphore-posix.o, pshm-posix.o, psysclose-unix.o) are redirected to the vw_* wrappers
// below (objcopy --redefine-syms), which count "points" (before/after each call) and implement
// kill_at (SIGKILL self at point n of a step) and pause_at (park at point n until resumed).
//
// Case format:
//   ipcx <prop>
//   <worker> <cmd> <args...> [kill=<n>] [pause=<n>]      one step per line
// Steps are interpreted model-driven by the coordinator: a step whose precondition does not hold in
// the model (e.g. acquire on an empty counter) is converted or skipped, so every line sequence is valid.
#include <rapidcheck.h>
#include "../../vlib/vlib.h"
#include "../../vlib/vipc.h"
#include <sys/socket.h>
#include <sys/wait.h>
#include <sys/mman.h>
#include <sys/stat.h>
#include <semaphore.h>
#include <fcntl.h>
#include <poll.h>
#include <stdarg.h>
#include <atomic>
#include <sys/prctl.h>
extern "C" {
#include <plibsys.h>
}
using std::string;
using std::vector;

// ======================================================================================================
// wrappers around the IPC libc calls made by the library objects
// ======================================================================================================
struct SharedPage {
  std::atomic<int> inside[8];       // k-exclusion: workers currently between acquire and release, per object id
  std::atomic<int> max_inside[8];
  std::atomic<long> rounds_done;
};
static SharedPage *g_page = nullptr;
static int g_worker_fd = -1;        // worker side of the socketpair
static int g_point = 0;             // points seen in the current step
static int g_kill_at = 0, g_pause_at = 0, g_fail_at = 0;   // fail_at: the system call whose BEFORE point has this number fails without being made
static bool g_in_step = false;

static void point(const char *call, int after) {
  if (!g_in_step) return;
  g_point++;
  if (g_kill_at && g_point == g_kill_at) { raise(SIGKILL); }
  if (g_pause_at && g_point == g_pause_at) {
    char b[96]; int n = snprintf(b, sizeof b, "paused %d %s %s\n", g_point, call, after ? "after" : "before");
    ssize_t w = write(g_worker_fd, b, (size_t)n); (void)w;
    // wait for "resume\n"
    char c; string line;
    while (read(g_worker_fd, &c, 1) == 1) { if (c == '\n') break; line += c; }
  }
}
static bool fail_now() { return g_in_step && g_fail_at && g_point == g_fail_at; }
extern "C" {
sem_t *vw_sem_open(const char *name, int oflag, ...) {
  mode_t mode = 0; unsigned value = 0;
  if (oflag & O_CREAT) { va_list ap; va_start(ap, oflag); mode = (mode_t)va_arg(ap, int); value = va_arg(ap, unsigned); va_end(ap); }
  point("sem_open", 0);
  if (fail_now()) { point("sem_open", 1); errno = EMFILE; return SEM_FAILED; }
  sem_t *r = (oflag & O_CREAT) ? sem_open(name, oflag, mode, value) : sem_open(name, oflag);
  int e = errno; point("sem_open", 1); errno = e;
  return r;
}
int vw_sem_close(sem_t *s) { point("sem_close", 0); int r = sem_close(s); int e = errno; point("sem_close", 1); errno = e; return r; }
int vw_sem_unlink(const char *n) { point("sem_unlink", 0); int r = sem_unlink(n); int e = errno; point("sem_unlink", 1); errno = e; return r; }
int vw_sem_wait(sem_t *s) { point("sem_wait", 0); int r = sem_wait(s); int e = errno; point("sem_wait", 1); errno = e; return r; }
int vw_sem_post(sem_t *s) { point("sem_post", 0); int r = sem_post(s); int e = errno; point("sem_post", 1); errno = e; return r; }
int vw_shm_open(const char *n, int fl, mode_t m) { point("shm_open", 0); if (fail_now()) { point("shm_open", 1); errno = EMFILE; return -1; } int r = shm_open(n, fl, m); int e = errno; point("shm_open", 1); errno = e; return r; }
int vw_shm_unlink(const char *n) { point("shm_unlink", 0); int r = shm_unlink(n); int e = errno; point("shm_unlink", 1); errno = e; return r; }
int vw_ftruncate(int fd, off_t l) { point("ftruncate", 0); if (fail_now()) { point("ftruncate", 1); errno = EIO; return -1; } int r = ftruncate(fd, l); int e = errno; point("ftruncate", 1); errno = e; return r; }
void *vw_mmap(void *a, size_t l, int p, int f, int fd, off_t o) { point("mmap", 0); if (fail_now()) { point("mmap", 1); errno = ENOMEM; return MAP_FAILED; } void *r = mmap(a, l, p, f, fd, o); int e = errno; point("mmap", 1); errno = e; return r; }
int vw_munmap(void *a, size_t l) { point("munmap", 0); int r = munmap(a, l); int e = errno; point("munmap", 1); errno = e; return r; }
int vw_close(int fd) { point("close", 0); int r = close(fd); int e = errno; point("close", 1); errno = e; return r; }
}

namespace {

// ======================================================================================================
// worker
// ======================================================================================================
struct WSlots { std::map<int, PSemaphore *> sems; std::map<int, PShm *> shms; std::map<int, PShmBuffer *> bufs; };

string pattern_bytes(size_t len, unsigned seed) { string s(len, 0); unsigned x = seed * 2654435761u + 12345u; for (size_t i = 0; i < len; i++) { x = x * 1103515245u + 12345u; s[i] = (char)(1 + (x >> 16) % 251); } return s; }

void worker_main(int fd) {
  prctl(PR_SET_PDEATHSIG, SIGKILL);   // never outlive the coordinator
  if (getppid() == 1) _exit(0);
  g_worker_fd = fd;
  WSlots S;
  FILE *in = fdopen(dup(fd), "r");
  char line[8192];
  auto reply = [&](const string &r) { string m = r + "\n"; ssize_t w; do w = write(fd, m.data(), m.size()); while (w < 0 && errno == EINTR); };
  // a handled signal without SA_RESTART: the coordinator sends SIGUSR1 to a worker that is (supposed to be) blocked in acquire / lock -
  // a signal is not a unit, the call has to keep waiting
  { struct sigaction sa; memset(&sa, 0, sizeof sa); sa.sa_handler = [](int) {}; sigemptyset(&sa.sa_mask); sa.sa_flags = 0; sigaction(SIGUSR1, &sa, NULL); }
  for (;;) {
    if (!fgets(line, sizeof line, in)) { if (errno == EINTR && !feof(in)) { clearerr(in); continue; } break; }
    auto w = vl::split_ws(line);
    if (w.empty()) continue;
    g_kill_at = 0; g_pause_at = 0; g_fail_at = 0;
    vector<string> a;
    for (auto &t : w) { if (t.rfind("kill=", 0) == 0) g_kill_at = atoi(t.c_str() + 5); else if (t.rfind("pause=", 0) == 0) g_pause_at = atoi(t.c_str() + 6); else if (t.rfind("fail=", 0) == 0) g_fail_at = atoi(t.c_str() + 5); else a.push_back(t); }
    const string &cmd = a[0];
    auto I = [&](size_t i) { return i < a.size() ? atol(a[i].c_str()) : 0L; };
    g_point = 0; g_in_step = true;
    PError *err = NULL;
    string r = "ok";
    if (cmd == "quit") { g_in_step = false; reply("bye"); break; }
    else if (cmd == "sem_new") { PSemaphore *s = p_semaphore_new(a[2].c_str(), (pint)I(3), I(4) ? P_SEM_ACCESS_CREATE : P_SEM_ACCESS_OPEN, &err); if (s) S.sems[(int)I(1)] = s; else r = "null " + std::to_string(err ? p_error_get_native_code(err) : 0); }
    else if (cmd == "sem_acq") { pboolean ok = p_semaphore_acquire(S.sems[(int)I(1)], &err); r = ok ? "true" : "false"; }
    else if (cmd == "sem_rel") { pboolean ok = p_semaphore_release(S.sems[(int)I(1)], &err); r = ok ? "true" : "false"; }
    else if (cmd == "sem_own") { p_semaphore_take_ownership(S.sems[(int)I(1)]); }
    else if (cmd == "sem_free") { p_semaphore_free(S.sems[(int)I(1)]); S.sems.erase((int)I(1)); }
    else if (cmd == "sem_phase") { // k-exclusion rounds: acquire; inside++; check; work; inside--; release
      int obj = (int)I(2) % 8; long rounds = I(3);
      PSemaphore *s = S.sems[(int)I(1)];
      for (long i = 0; i < rounds; i++) {
        if (!p_semaphore_acquire(s, NULL)) { r = "acquire-failed"; break; }
        int now = g_page->inside[obj].fetch_add(1) + 1;
        int mx = g_page->max_inside[obj].load(); while (now > mx && !g_page->max_inside[obj].compare_exchange_weak(mx, now)) {}
        for (volatile int k = 0; k < 200; k++) {}
        if (i % 7 == 0) sched_yield();
        g_page->inside[obj].fetch_sub(1);
        if (!p_semaphore_release(s, NULL)) { r = "release-failed"; break; }
      }
    }
    else if (cmd == "shm_new") { PShm *m = p_shm_new(a[2].c_str(), (psize)I(3), I(4) ? P_SHM_ACCESS_READONLY : P_SHM_ACCESS_READWRITE, &err); if (m) { S.shms[(int)I(1)] = m; r = "ok " + std::to_string(p_shm_get_size(m)); } else r = "null " + std::to_string(err ? p_error_get_native_code(err) : 0); }
    else if (cmd == "shm_size") { r = "size " + std::to_string(p_shm_get_size(S.shms[(int)I(1)])); }
    else if (cmd == "shm_store") { PShm *m = S.shms[(int)I(1)]; size_t off = (size_t)I(2), len = (size_t)I(3); string b = pattern_bytes(len, (unsigned)I(4)); memcpy((char *)p_shm_get_address(m) + off, b.data(), len); }
    else if (cmd == "shm_load") { PShm *m = S.shms[(int)I(1)]; size_t off = (size_t)I(2), len = (size_t)I(3); r = "data " + vl::hex(string((char *)p_shm_get_address(m) + off, len)); }
    else if (cmd == "shm_touch") { PShm *m = S.shms[(int)I(1)]; volatile unsigned char acc = 0; unsigned char *p = (unsigned char *)p_shm_get_address(m); psize n = p_shm_get_size(m); for (psize i = 0; i < n; i++) acc ^= p[i]; r = "touched " + std::to_string(n); }
    else if (cmd == "shm_lock") { r = p_shm_lock(S.shms[(int)I(1)], &err) ? "true" : "false"; }
    else if (cmd == "shm_unlock") { r = p_shm_unlock(S.shms[(int)I(1)], &err) ? "true" : "false"; }
    else if (cmd == "shm_own") { p_shm_take_ownership(S.shms[(int)I(1)]); }
    else if (cmd == "shm_free") { p_shm_free(S.shms[(int)I(1)]); S.shms.erase((int)I(1)); }
    else if (cmd == "shm_phase") { // lock; non-atomic counter++ in the segment (read, yield, write); unlock
      PShm *m = S.shms[(int)I(1)]; long rounds = I(2); int obj = (int)I(3) % 8;
      volatile long *ctr = (volatile long *)p_shm_get_address(m);
      for (long i = 0; i < rounds; i++) {
        if (!p_shm_lock(m, NULL)) { r = "lock-failed"; break; }
        int now = g_page->inside[obj].fetch_add(1) + 1;
        int mx = g_page->max_inside[obj].load(); while (now > mx && !g_page->max_inside[obj].compare_exchange_weak(mx, now)) {}
        long v = *ctr; if (i % 3 == 0) sched_yield(); for (volatile int k = 0; k < 100; k++) {} *ctr = v + 1;
        g_page->inside[obj].fetch_sub(1);
        if (!p_shm_unlock(m, NULL)) { r = "unlock-failed"; break; }
      }
    }
    else if (cmd == "buf_new") { PShmBuffer *b = p_shm_buffer_new(a[2].c_str(), (psize)I(3), &err); if (b) S.bufs[(int)I(1)] = b; else r = "null " + std::to_string(err ? p_error_get_native_code(err) : 0); }
    else if (cmd == "buf_write") { string b = pattern_bytes((size_t)I(2), (unsigned)I(3)); r = "n " + std::to_string((long)p_shm_buffer_write(S.bufs[(int)I(1)], (ppointer)b.data(), b.size(), &err)); }
    else if (cmd == "buf_read") { size_t len = (size_t)I(2); string b(len ? len : 1, (char)0xEE); pint n = p_shm_buffer_read(S.bufs[(int)I(1)], &b[0], len, &err); r = "n " + std::to_string(n) + " " + (n > 0 ? vl::hex(b.substr(0, (size_t)n)) : string("-")); if (n >= 0) for (size_t i = (size_t)n; i < len; i++) if ((unsigned char)b[i] != 0xEE) { r += " beyond " + std::to_string(i); break; } }
    else if (cmd == "buf_clear") { p_shm_buffer_clear(S.bufs[(int)I(1)]); }
    else if (cmd == "buf_free_space") { r = "n " + std::to_string((long)p_shm_buffer_get_free_space(S.bufs[(int)I(1)], &err)); }
    else if (cmd == "buf_used") { r = "n " + std::to_string((long)p_shm_buffer_get_used_space(S.bufs[(int)I(1)], &err)); }
    else if (cmd == "buf_own") { p_shm_buffer_take_ownership(S.bufs[(int)I(1)]); }
    else if (cmd == "buf_free") { p_shm_buffer_free(S.bufs[(int)I(1)]); S.bufs.erase((int)I(1)); }
    else if (cmd == "buf_prod") { // frames: [len][id][seq][payload...] written atomically per frame; retries while full
      PShmBuffer *b = S.bufs[(int)I(1)]; long frames = I(2); int id = (int)I(3); long maxlen = I(4);
      for (long f = 0; f < frames; f++) {
        size_t plen = (size_t)(1 + (f * 7 + id * 3) % maxlen);
        string fr; fr += (char)plen; fr += (char)id; fr += (char)(f & 0xff); fr += pattern_bytes(plen, (unsigned)(id * 1000 + f));
        int spins = 0;
        for (;;) { pssize n = p_shm_buffer_write(b, (ppointer)fr.data(), fr.size(), NULL); if (n == (pssize)fr.size()) break; if (n != 0) { r = "short-write"; f = frames; break; } if (++spins > 20000) { r = "stuck"; f = frames; break; } if (spins % 50 == 0) usleep(200); else sched_yield(); }
      }
    }
    else if (cmd == "buf_cons") { // reads byte stream, reassembles frames, checks integrity and per-producer order
      PShmBuffer *b = S.bufs[(int)I(1)]; long total_frames = I(2);
      string stream; long got = 0; std::map<int, int> next_seq; long spins = 0; int empty_after_done = 0;
      while (got < total_frames && r == "ok") {
        char tmp[64]; pint n = p_shm_buffer_read(b, tmp, 1 + (size_t)(spins % 37), NULL);
        if (n < 0) { r = "read-failed"; break; }
        if (n == 0) {
          // give up only when the coordinator says every producer has finished successfully and the queue stays empty: then frames are LOST
          ++spins;
          if (g_page->rounds_done.load() == 1) { if (++empty_after_done > 3000) { r = "frames-missing " + std::to_string(got) + "/" + std::to_string(total_frames); break; } usleep(200); continue; }
          if (spins > 3000000) { r = "stuck"; break; }
          if (spins % 50 == 0) usleep(200); else sched_yield();
          continue;
        }
        empty_after_done = 0;
        stream.append(tmp, (size_t)n);
        while (stream.size() >= 3 && stream.size() >= 3 + (size_t)(unsigned char)stream[0]) {
          size_t plen = (unsigned char)stream[0]; int id = (unsigned char)stream[1]; int seq = (unsigned char)stream[2];
          if (seq != (next_seq[id] & 0xff)) { r = "frame-order"; break; }
          if (stream.substr(3, plen) != pattern_bytes(plen, (unsigned)(id * 1000 + next_seq[id]))) { r = "frame-corrupt"; break; }
          next_seq[id]++; got++;
          stream.erase(0, 3 + plen);
        }
      }
      if (r == "ok" && !stream.empty()) r = "trailing-bytes";
    }
    else r = "unknown-command";
    g_in_step = false;
    if (err) p_error_free(err);
    reply(r + " points=" + std::to_string(g_point));
  }
  _exit(0);
}

// ======================================================================================================
// coordinator
// ======================================================================================================
struct Worker { pid_t pid = -1; int fd = -1; bool dead = false; bool busy = false; string rbuf; };
struct Step { int worker = 0; string cmd; vector<long> args; string sarg; int kill = 0, pause = 0, fail = 0; };
struct Case { string prop = "C06"; vector<Step> steps; int pad = 0; /* names are <unique prefix> + pad x 'n' + <digit>: long names that differ only in their last character */ };

string step_text(const Step &s) {
  std::ostringstream os; os << s.worker << ' ' << s.cmd;
  if (!s.sarg.empty()) os << ' ' << s.sarg;
  for (long a : s.args) os << ' ' << a;
  if (s.kill) os << " kill=" << s.kill;
  if (s.pause) os << " pause=" << s.pause;
  if (s.fail) os << " fail=" << s.fail;
  return os.str();
}
string to_text(const Case &c) { std::ostringstream os; os << "ipcx " << c.prop; if (c.pad) os << " pad=" << c.pad; os << "\n"; for (auto &s : c.steps) os << step_text(s) << "\n"; return os.str(); }
bool from_text(const string &t, Case &c) {
  for (auto &l : vl::split_lines(t)) {
    auto w = vl::split_ws(l); if (w.empty() || w[0][0] == '#') continue;
    if (w[0] == "ipcx") { if (w.size() > 1) c.prop = w[1]; for (size_t i = 2; i < w.size(); i++) if (w[i].rfind("pad=", 0) == 0) c.pad = atoi(w[i].c_str() + 4); continue; }
    Step s; s.worker = atoi(w[0].c_str()); if (w.size() < 2) continue; s.cmd = w[1];
    for (size_t i = 2; i < w.size(); i++) {
      if (w[i].rfind("kill=", 0) == 0) s.kill = atoi(w[i].c_str() + 5);
      else if (w[i].rfind("pause=", 0) == 0) s.pause = atoi(w[i].c_str() + 6);
      else if (w[i].rfind("fail=", 0) == 0) s.fail = atoi(w[i].c_str() + 5);
      else if (isalpha((unsigned char)w[i][0])) s.sarg = w[i];
      else s.args.push_back(atol(w[i].c_str()));
    }
    c.steps.push_back(s);
  }
  return true;
}
void showValue(const Case &c, std::ostream &os) { os << to_text(c); }
std::ostream &operator<<(std::ostream &os, const Step &s) { return os << step_text(s); }

struct Outcome { string verdict, klass; bool nontrivial = false; uint64_t fp = 0; bool inconclusive = false; };

struct Coord {
  vector<Worker> ws;
  string uniq; int grace_ms = 150;
  std::set<string> names_used;
  Outcome out;
  std::set<string> classes;
  void fail(const string &k, const string &m) { if (out.verdict.empty() && !out.inconclusive) { out.verdict = m; out.klass = k; } }
  bool bad() const { return !out.verdict.empty() || out.inconclusive; }

  void spawn(int n) {
    for (int i = 0; i < n; i++) {
      int sv[2]; socketpair(AF_UNIX, SOCK_STREAM, 0, sv);
      fflush(NULL);
      pid_t p = fork();
      if (p == 0) { close(sv[0]); for (auto &w : ws) close(w.fd); alarm(120); worker_main(sv[1]); _exit(0); }
      close(sv[1]);
      Worker w; w.pid = p; w.fd = sv[0]; ws.push_back(w);
    }
  }
  void respawn(int i) { // replace a dead worker by a fresh process in the same seat
    int sv[2]; socketpair(AF_UNIX, SOCK_STREAM, 0, sv);
    fflush(NULL);
    pid_t p = fork();
    if (p == 0) { close(sv[0]); for (auto &w : ws) if (w.fd >= 0) close(w.fd); alarm(120); worker_main(sv[1]); _exit(0); }
    close(sv[1]);
    if (ws[(size_t)i].fd >= 0) close(ws[(size_t)i].fd);
    ws[(size_t)i] = Worker(); ws[(size_t)i].pid = p; ws[(size_t)i].fd = sv[0];
  }
  void send(int i, const string &line) { string m = line + "\n"; ssize_t w = write(ws[(size_t)i].fd, m.data(), m.size()); (void)w; ws[(size_t)i].busy = true; }
  // wait for one line from worker i; returns false on timeout; sets dead on EOF
  // "must still be blocked" wait: like recv, but the waiting process is poked with a handled signal (no SA_RESTART) at one third and two
  // thirds of the grace period - an interrupted wait is not a unit
  bool recv_poked(int i, string &line, int timeout_ms) {
    int part = std::max(10, timeout_ms / 3);
    if (recv(i, line, part)) return true;
    if (!ws[(size_t)i].dead) kill(ws[(size_t)i].pid, SIGUSR1);
    if (recv(i, line, part)) return true;
    if (!ws[(size_t)i].dead) kill(ws[(size_t)i].pid, SIGUSR1);
    return recv(i, line, timeout_ms - 2 * part > 0 ? timeout_ms - 2 * part : part);
  }
  bool recv(int i, string &line, int timeout_ms) {
    Worker &w = ws[(size_t)i];
    for (;;) {
      size_t nl = w.rbuf.find('\n');
      if (nl != string::npos) { line = w.rbuf.substr(0, nl); w.rbuf.erase(0, nl + 1); if (line.rfind("paused", 0) != 0) w.busy = false; return true; }
      struct pollfd p = {w.fd, POLLIN, 0};
      int r = poll(&p, 1, timeout_ms);
      if (r <= 0) return false;
      char buf[4096]; ssize_t n = read(w.fd, buf, sizeof buf);
      if (n <= 0) { w.dead = true; w.busy = false; line = "DEAD"; int st; waitpid(w.pid, &st, 0); return true; }
      w.rbuf.append(buf, (size_t)n);
    }
  }
  // synchronous call with a generous timeout; timeout => inconclusive
  bool hang_is_verdict = false; string case_text, prop;
  static string syscall_of(pid_t pid) { char p[64]; snprintf(p, sizeof p, "/proc/%d/syscall", (int)pid); FILE *f = fopen(p, "r"); if (!f) return ""; char b[256] = ""; if (!fgets(b, sizeof b, f)) b[0] = 0; fclose(f); return b; }
  static double cpu_seconds_of(pid_t pid) {
    char pth[64]; snprintf(pth, sizeof pth, "/proc/%d/stat", (int)pid);
    FILE *f = fopen(pth, "r"); if (!f) return -1;
    char buf[1024]; size_t n = fread(buf, 1, sizeof buf - 1, f); fclose(f); buf[n] = 0;
    const char *rp = strrchr(buf, ')'); if (!rp) return -1;
    unsigned long ut = 0, stt = 0; int k = 0; const char *q = rp + 1;
    // fields after the command: state(3) ... utime is field 14, stime field 15
    for (int field = 3; *q && field <= 15; field++) { while (*q == ' ') q++; if (field == 14) ut = strtoul(q, NULL, 10); if (field == 15) stt = strtoul(q, NULL, 10); while (*q && *q != ' ') q++; k++; }
    (void)k; return (double)(ut + stt) / (double)sysconf(_SC_CLK_TCK);
  }
  string call(int i, const string &line, int timeout_ms = 10000) {
    double cpu0 = cpu_seconds_of(ws[(size_t)i].pid);
    send(i, line);
    string r;
    if (!recv(i, r, hang_is_verdict ? 4000 : timeout_ms)) {
      if (hang_is_verdict) {
        // sequential history: every other worker is idle, so a worker that sits in a futex wait (sem_wait of the buffer lock) can never be released
        string a = syscall_of(ws[(size_t)i].pid); usleep(400000); string b = syscall_of(ws[(size_t)i].pid);
        if (a.rfind("202 ", 0) == 0 && a == b) {
          vl::report_failure("mp_hang", case_text, prop + ":operation-does-not-return: '" + line + "' never returned: the worker process is blocked in a futex wait although no other process is inside an operation (a lock was not released on some return path)", "operation-does-not-return");
          vl::stats().flush();
          printf("REPLAY-FAIL %s:operation-does-not-return: worker blocked forever in the buffer lock\n", prop.c_str()); fflush(stdout);
          shutdown();
          _exit(1);
        }
      }
      // a worker that has been BURNING CPU since the command was sent (not waiting for anything) is in a loop that does not end: the
      // CPU time of the worker process, not the wall clock, decides - a starved worker accumulates none
      double cpu1 = cpu_seconds_of(ws[(size_t)i].pid);
      if (cpu0 >= 0 && cpu1 >= 0 && cpu1 - cpu0 >= 3.0) {
        fail("call-does-not-return", "'" + line + "' did not return: the worker process spent " + std::to_string(cpu1 - cpu0) + " s of CPU time inside the call (calls of this kind take microseconds)");
        kill(ws[(size_t)i].pid, SIGKILL); ws[(size_t)i].dead = true; int st; waitpid(ws[(size_t)i].pid, &st, 0);
        return "TIMEOUT";
      }
      out.inconclusive = true; vl::stats().count("inconclusive_worker_timeout"); return "TIMEOUT";
    }
    return r;
  }
  void shutdown() {
    for (auto &w : ws) {
      if (w.pid > 0 && !w.dead) { if (!w.busy) { string m = "quit\n"; ssize_t r = write(w.fd, m.data(), m.size()); (void)r; } else kill(w.pid, SIGKILL); }
    }
    for (auto &w : ws) { if (w.pid > 0 && !w.dead) { struct pollfd p = {w.fd, POLLIN, 0}; poll(&p, 1, 300); kill(w.pid, SIGKILL); int st; waitpid(w.pid, &st, 0); } if (w.fd >= 0) close(w.fd); }
    ws.clear();
  }
};

// ---- C06 semaphore model -------------------------------------------------------------------------------
struct SemGen { long value = 0; sem_t *peek = SEM_FAILED; bool name_linked = true; };
struct SemHandle { int gen = -1; bool owner = false; bool live = false; };

Outcome run_c06(const Case &c, bool thorough) {
  Coord co; char u[64]; { struct timespec ts; clock_gettime(CLOCK_MONOTONIC, &ts); snprintf(u, sizeof u, "v6_%d_%lx_", (int)getpid(), (long)(ts.tv_sec * 1000000000L + ts.tv_nsec)); } co.uniq = u;  /* pid + time: a recycled pid must never meet a stale name of an interrupted run */
  co.grace_ms = thorough ? 400 : 150;
  int P = 3;
  for (auto &s : c.steps) P = std::max(P, s.worker + 1);
  P = std::min(P, 4);
  co.spawn(P);
  vector<SemGen> gens;
  std::map<string, int> name_gen;                    // name -> current generation or absent
  std::map<std::pair<int, int>, SemHandle> handles;    // (worker, slot)
  std::map<std::pair<int, int>, string> handle_name;
  bool multi_proc = false, new_on_existing = false, probe_other = false, killed_any = false;
  auto sem_file_gone = [&](const string &n) { return !vi::exists(vi::sem_file(n)); };
  auto peek_open = [&](const string &n) { string key = "/" + vi::key13(n + "_p_sem_object"); return sem_open(key.c_str(), 0); };
  auto check_values = [&](const char *when) {
    for (size_t g = 0; g < gens.size() && !co.bad(); g++) {
      if (gens[g].peek == SEM_FAILED) continue;
      int v = -1; sem_getvalue(gens[g].peek, &v);
      if (v != gens[g].value) co.fail("counter", string(when) + ": semaphore counter is " + std::to_string(v) + ", model " + std::to_string(gens[g].value));
    }
  };
  auto fullname = [&](long n) { string s = co.uniq + string((size_t)c.pad, 'n') + std::to_string(n % 3); co.names_used.insert(s); return s; };
  int step_no = 0;
  for (auto &s : c.steps) {
    if (co.bad()) break;
    step_no++;
    int w = s.worker % P;
    if (co.ws[(size_t)w].dead) co.respawn(w);
    auto key = std::make_pair(w, (int)(s.args.size() > 0 ? s.args[0] % 3 : 0));
    if (s.cmd == "new") {
      // args: slot, name idx, init, mode(0 open,1 create)
      long nidx = s.args.size() > 1 ? s.args[1] : 0, init = s.args.size() > 2 ? s.args[2] : 1, mode = s.args.size() > 3 ? s.args[3] % 2 : 0;
      if (handles[key].live) continue; // slot busy
      string name = fullname(nidx);
      bool exists = name_gen.count(name) != 0;
      if (exists && mode == 1 && vl::excluded("create-on-existing")) { vl::stats().count("excluded_create_on_existing"); continue; }
      std::ostringstream cmd; cmd << "sem_new " << key.second << ' ' << name << ' ' << init << ' ' << mode;
      if (s.kill) cmd << " kill=" << s.kill;
      string r = co.call(w, cmd.str());
      if (co.bad()) break;
      if (r == "DEAD") { killed_any = true; co.classes.insert("kill_in_sem_new"); // crash inside new: recover below
        // the name may or may not exist now; documented clean-up: new(OPEN) -> take_ownership -> free -> new(CREATE/OPEN, v')
        int r2 = (w + 1) % P; if (co.ws[(size_t)r2].dead) co.respawn(r2);
        // forget model of this name: every generation of it is abandoned (other live handles keep their generation)
        string a1 = co.call(r2, "sem_new 9 " + name + " 1 0");
        if (a1.rfind("ok", 0) != 0) { co.fail("crash-recovery", "after a process was killed at point " + std::to_string(s.kill) + " of p_semaphore_new, clean-up step new(OPEN) failed: " + a1); break; }
        co.call(r2, "sem_own 9"); co.call(r2, "sem_free 9");
        if (!sem_file_gone(name)) { co.fail("crash-recovery", "after clean-up (open / take_ownership / free) the semaphore name still exists"); break; }
        string a2 = co.call(r2, "sem_new 9 " + name + " 5 1");
        if (a2.rfind("ok", 0) != 0) { co.fail("crash-recovery", "re-creating the semaphore after clean-up failed: " + a2); break; }
        sem_t *pk = peek_open(name); int v = -1; if (pk != SEM_FAILED) { sem_getvalue(pk, &v); sem_close(pk); }
        if (v != 5) { co.fail("crash-recovery", "re-created semaphore has value " + std::to_string(v) + ", expected 5"); break; }
        co.call(r2, "sem_own 9"); co.call(r2, "sem_free 9");
        // handles of killed worker are gone
        for (auto &h : handles) if (h.first.first == w) h.second.live = false;
        // the name is now absent; generations that used it are detached
        if (name_gen.count(name)) { gens[(size_t)name_gen[name]].name_linked = false; name_gen.erase(name); }
        continue;
      }
      if (r.rfind("ok", 0) != 0) { co.fail(exists && mode == 1 ? "create-on-existing" : "new", "p_semaphore_new(" + string(mode ? "CREATE" : "OPEN") + ", init " + std::to_string(init) + ") on " + (exists ? "an existing" : "an absent") + " name failed: " + r); break; }
      SemHandle h; h.live = true;
      if (!exists || mode == 1) {
        if (exists) { gens[(size_t)name_gen[name]].name_linked = false; new_on_existing = true; co.classes.insert("create_on_existing"); }
        SemGen g; g.value = init; g.peek = peek_open(name);
        if (g.peek == SEM_FAILED) { co.fail("name", "the semaphore of a freshly created name cannot be found under the expected system name"); break; }
        gens.push_back(g); name_gen[name] = (int)gens.size() - 1; h.owner = true;
      } else { new_on_existing = true; co.classes.insert(init != gens[(size_t)name_gen[name]].value ? "open_on_existing_other_init" : "open_on_existing"); }
      h.gen = name_gen[name];
      handles[key] = h; handle_name[key] = name;
      for (auto &o : handles) if (o.second.live && o.second.gen == h.gen && o.first.first != w) multi_proc = true;
      check_values("after p_semaphore_new");
    } else if (s.cmd == "acq" || s.cmd == "rel") {
      if (!handles[key].live) continue;
      SemGen &g = gens[(size_t)handles[key].gen];
      if (s.cmd == "rel") {
        if (g.value >= 30) continue;
        string r = co.call(w, "sem_rel " + std::to_string(key.second));
        if (r.rfind("true", 0) != 0 && !co.bad()) { co.fail("release", "p_semaphore_release returned " + r); break; }
        g.value++;
      } else if (g.value > 0) {
        string r = co.call(w, "sem_acq " + std::to_string(key.second) + (s.kill ? " kill=" + std::to_string(s.kill) : ""));
        if (r == "DEAD") { killed_any = true; co.classes.insert("kill_in_acquire"); for (auto &h : handles) if (h.first.first == w) h.second.live = false; int v = -1; sem_getvalue(g.peek, &v); g.value = v; continue; }
        if (r.rfind("true", 0) != 0 && !co.bad()) { co.fail("acquire", "p_semaphore_acquire with " + std::to_string(g.value) + " unit(s) available returned " + r); break; }
        g.value--;
      } else {
        // counter is 0: the acquire must block; it must complete right after a release through ANOTHER handle of the generation
        std::pair<int, int> other = {-1, -1};
        for (auto &o : handles) if (o.second.live && o.second.gen == handles[key].gen && o.first.first != w) other = o.first;
        if (other.first < 0) continue;
        if (co.ws[(size_t)other.first].dead) continue;
        co.send(w, "sem_acq " + std::to_string(key.second));
        string r;
        if (co.recv_poked(w, r, co.grace_ms)) { co.fail("acquire-no-unit", "p_semaphore_acquire returned (" + r + ") although the counter is 0 (signals were delivered to the waiting process meanwhile): an acquire must block until a unit is released"); break; }
        string rr = co.call(other.first, "sem_rel " + std::to_string(other.second));
        if (!co.recv(w, r, 10000)) { co.out.inconclusive = true; break; }
        if (r.rfind("true", 0) != 0) { co.fail("acquire", "blocked acquire completed with " + r + " after a release"); break; }
        co.classes.insert("blocked_then_released");
        probe_other = true;
      }
      check_values(s.cmd == "rel" ? "after release" : "after acquire");
      for (auto &o : handles) if (o.second.live && o.second.gen == handles[key].gen && o.first != key) probe_other = true;
    } else if (s.cmd == "own") {
      if (!handles[key].live) continue;
      co.call(w, "sem_own " + std::to_string(key.second)); handles[key].owner = true;
    } else if (s.cmd == "free") {
      if (!handles[key].live) continue;
      string r = co.call(w, "sem_free " + std::to_string(key.second) + (s.kill ? " kill=" + std::to_string(s.kill) : ""));
      SemHandle h = handles[key]; handles[key].live = false;
      string name = handle_name[key];
      if (r == "DEAD") { killed_any = true; co.classes.insert("kill_in_free"); for (auto &hh : handles) if (hh.first.first == w) hh.second.live = false;
        // state of the name is whatever the kill left; resynchronise the model from the system
        bool linked = !sem_file_gone(name);
        if (!linked && name_gen.count(name)) { gens[(size_t)name_gen[name]].name_linked = false; name_gen.erase(name); }
        continue; }
      if (h.owner) {
        // an owner free removes the NAME, whichever generation currently carries it (the property speaks of "owner free of the name"):
        // handles opened afterwards start a fresh counter; handles of older generations keep theirs
        if (!sem_file_gone(name)) { co.fail("owner-free", "an owner freed its handle but the name still exists in the system"); break; }
        if (name_gen.count(name)) { gens[(size_t)name_gen[name]].name_linked = false; name_gen.erase(name); }
        co.classes.insert("owner_free");
      } else if (name_gen.count(name) && name_gen[name] == h.gen) {
        if (sem_file_gone(name)) { co.fail("nonowner-free", "a non-owner freed its handle and the name disappeared"); break; }
      }
      check_values("after free");
    } else if (s.cmd == "race") {
      // an OPEN-mode open of an existing name, parked at one of the library's sem_open calls while the owner frees the name.  Whatever the
      // interleaving, the opener ends up (a) with NULL, (b) attached to the old counter (opened before the removal) or (c) with a FRESH
      // counter - and a fresh counter carries exactly the initial value the opener gave
      long nidx = 3 + (s.args.size() > 1 ? s.args[1] : 0);            // names 3.. are used by race steps only
      string name = co.uniq + string((size_t)c.pad, 'n') + "r" + std::to_string(nidx % 3); co.names_used.insert(name);
      int w2 = (w + 1) % P; if (co.ws[(size_t)w2].dead) co.respawn(w2);
      long v0 = 1 + (s.args.size() > 2 ? s.args[2] % 3 : 0), vn = 4 + (s.args.size() > 3 ? s.args[3] % 3 : 0);
      string a0 = co.call(w2, "sem_new 7 " + name + " " + std::to_string(v0) + " 1");
      if (a0.rfind("ok", 0) != 0) { co.out.inconclusive = true; break; }
      // every other race step the overlapping open is a CREATE-mode one ("CREATE mode succeeds whether or not the name exists": the name
      // exists at its first look and is gone at a later one)
      bool creating = (s.args.size() > 0 ? s.args[0] : 0) % 2 == 1;
      int pause = s.pause > 0 ? 1 + (s.pause - 1) % (creating ? 6 : 4) : 2;
      co.send(w, "sem_new 7 " + name + " " + std::to_string(vn) + (creating ? " 1" : " 0") + " pause=" + std::to_string(pause));
      string r1;
      if (!co.recv(w, r1, 10000)) { co.out.inconclusive = true; break; }
      bool paused = r1.rfind("paused", 0) == 0;
      if (paused) {
        co.call(w2, "sem_free 7");                                  // creator = owner: the name goes away
        string m = "resume\n"; ssize_t wr = write(co.ws[(size_t)w].fd, m.data(), m.size()); (void)wr;
        if (!co.recv(w, r1, 10000)) { co.out.inconclusive = true; break; }
      } else co.call(w2, "sem_free 7");
      co.classes.insert(paused ? string(creating ? "create" : "open") + "_vs_owner_free_paused_at_" + std::to_string(pause) : string(creating ? "create" : "open") + "_vs_owner_free_not_reached");
      if (creating) {
        if (r1.rfind("ok", 0) != 0) co.fail("race-create-failed", "a CREATE-mode p_semaphore_new(name, " + std::to_string(vn) + ") that overlapped the owner's free of the name (parked at point " + std::to_string(pause) + " of the call) failed (" + r1 + "): CREATE mode succeeds whether or not the name exists");
        else {
          sem_t *pk = peek_open(name);
          if (pk != SEM_FAILED) { int v = -1; sem_getvalue(pk, &v); sem_close(pk); if (v != vn) co.fail("race-create-value", "a CREATE-mode p_semaphore_new(name, " + std::to_string(vn) + ") that overlapped the owner's free of the name returned a counter with value " + std::to_string(v)); }
          else co.classes.insert("create_vs_owner_free_name_removed_by_the_owner_afterwards");   // the owner's unlink came last: allowed ("after an owner frees its handle the next open starts a fresh counter")
          co.call(w, "sem_own 7"); co.call(w, "sem_free 7");
        }
      } else if (r1.rfind("ok", 0) == 0) {
        sem_t *pk = peek_open(name);
        if (paused && pk != SEM_FAILED) {
          int v = -1; sem_getvalue(pk, &v);
          if (v != vn) co.fail("race-open-fresh-value", "an OPEN-mode p_semaphore_new(name, " + std::to_string(vn) + ") that overlapped the owner's free of the name (parked at point " + std::to_string(pause) + ") returned a handle on a fresh counter with value " + std::to_string(v) + " instead of " + std::to_string(vn));
          co.classes.insert("open_vs_owner_free_fresh_counter");
        } else if (paused) co.classes.insert("open_vs_owner_free_attached_to_old_counter");
        if (pk != SEM_FAILED) sem_close(pk);
        co.call(w, "sem_own 7"); co.call(w, "sem_free 7");
      } else co.classes.insert("open_vs_owner_free_returned_null");
      sem_unlink(("/" + vi::key13(name + "_p_sem_object")).c_str());
    } else if (s.cmd == "phase") {
      // k-exclusion: all live handles of one generation run rounds concurrently; concurrency must never exceed the counter
      if (!handles[key].live) continue;
      int gen = handles[key].gen; long v = gens[(size_t)gen].value;
      if (v < 1 || v > 3) continue;
      vector<std::pair<int, int>> parts; std::set<int> used;
      for (auto &o : handles) if (o.second.live && o.second.gen == gen && !used.count(o.first.first) && !co.ws[(size_t)o.first.first].dead) { parts.push_back(o.first); used.insert(o.first.first); }
      if ((long)parts.size() <= v) continue;
      g_page->inside[0] = 0; g_page->max_inside[0] = 0;
      long rounds = thorough ? 3000 : 600;
      for (auto &p : parts) co.send(p.first, "sem_phase " + std::to_string(p.second) + " 0 " + std::to_string(rounds));
      for (auto &p : parts) { string r; if (!co.recv(p.first, r, 30000)) { co.out.inconclusive = true; break; } if (r.rfind("ok", 0) != 0) co.fail("phase", "k-exclusion phase: worker reported " + r); }
      if (co.bad()) break;
      if (g_page->max_inside[0] > v) { co.fail("k-exclusion", std::to_string(g_page->max_inside[0].load()) + " processes were between acquire and release at once on a counter of " + std::to_string(v)); break; }
      co.classes.insert("k_exclusion_phase");
      check_values("after concurrent phase");
    }
  }
  // final scan: every live generation's counter, every name the model says is absent must be gone
  if (!co.bad()) check_values("at the end of the history");
  if (!co.bad()) for (auto &n : co.names_used) { bool model_has = name_gen.count(n) != 0; bool sys_has = vi::exists(vi::sem_file(n)); if (!killed_any && model_has != sys_has) { co.fail("names", "name " + n + (sys_has ? " exists in the system but the model says it is absent" : " is absent in the system but the model says it exists")); break; } }
  co.shutdown();
  for (auto &g : gens) if (g.peek != SEM_FAILED) sem_close(g.peek);
  for (auto &n : co.names_used) sem_unlink(("/" + vi::key13(n + "_p_sem_object")).c_str());
  for (auto &k : co.classes) vl::stats().klass(k);
  co.out.nontrivial = (multi_proc && new_on_existing && probe_other) || killed_any;
  return co.out;
}

// ---- C07 shared memory -----------------------------------------------------------------------------------
struct ShmGen { vector<unsigned char> bytes; size_t size = 0; bool linked = true; };
struct ShmHandle { int gen = -1; bool owner = false, live = false, ro = false; size_t arg = 0; size_t reported = 0; };

Outcome run_c07(const Case &c, bool thorough) {
  Coord co; char u[64]; { struct timespec ts; clock_gettime(CLOCK_MONOTONIC, &ts); snprintf(u, sizeof u, "v7_%d_%lx_", (int)getpid(), (long)(ts.tv_sec * 1000000000L + ts.tv_nsec)); } co.uniq = u;  /* pid + time: a recycled pid must never meet a stale name of an interrupted run */
  co.grace_ms = thorough ? 400 : 150;
  int P = 3;
  co.spawn(P);
  vector<ShmGen> gens; std::map<string, int> name_gen; std::map<std::pair<int, int>, ShmHandle> handles; std::map<std::pair<int, int>, string> hname;
  bool cross_read = false, race_both = false, killed_any = false;
  static const size_t sizes[] = {1, 7, 100, 4095, 4096, 4097, 8192, 65537};
  auto fullname = [&](long n) { string s = co.uniq + string((size_t)c.pad, 'n') + std::to_string(n % 2); co.names_used.insert(s); return s; };
  auto lock_holder_cleanup = [&]() {};
  (void)lock_holder_cleanup;
  std::map<int, std::pair<int, int>> lock_held; // gen -> handle holding the lock
  for (auto &s : c.steps) {
    if (co.bad()) break;
    int w = s.worker % P;
    if (co.ws[(size_t)w].dead) co.respawn(w);
    auto key = std::make_pair(w, (int)(s.args.size() > 0 ? s.args[0] % 3 : 0));
    if (s.cmd == "new") {
      long nidx = s.args.size() > 1 ? s.args[1] : 0; size_t size = sizes[(s.args.size() > 2 ? s.args[2] : 0) % 8]; long ro = s.args.size() > 3 ? (s.args[3] % 4 == 0) : 0;
      if (handles[key].live) continue;
      string name = fullname(nidx);
      bool exists = name_gen.count(name) != 0;
      if (!exists && s.args.size() > 3 && s.args[3] % 8 != 0) ro = 0;   // most creators are read-write; one in eight creates the segment through a READONLY handle (it is the owner all the same)
      if (!exists && ro) co.classes.insert("created_through_readonly_handle");
      std::ostringstream cmd; cmd << "shm_new " << key.second << ' ' << name << ' ' << size << ' ' << ro;
      int kill = s.kill;
      if (kill && !exists && (kill == 2 || kill == 3) && vl::excluded("crash-recovery-unsized-segment")) { kill += 2; vl::stats().count("excluded_kill_before_ftruncate_remapped"); }
      if (kill) cmd << " kill=" << kill;
      int failpt = kill ? 0 : s.fail;
      if (failpt) cmd << " fail=" << failpt;
      string r = co.call(w, cmd.str());
      if (co.bad()) break;
      if (failpt && r.rfind("null", 0) == 0) {
        // a system call inside p_shm_new failed (injected): the call reported failure.  Whatever it had done by then must be undone, and
        // nothing that existed before may be harmed: an absent name stays absent, an existing segment keeps its name, its bytes, its lock
        co.classes.insert(exists ? "new_failed_by_fault_on_existing_name" : "new_failed_by_fault_on_absent_name");
        bool seg = vi::exists(vi::shm_file(name)), lck = vi::exists(vi::shm_lock_file(name));
        if (!exists && (seg || lck)) { co.fail("failed-new-leaves-name", "p_shm_new on an absent name failed (system call at point " + std::to_string(failpt) + " failed) but left " + string(seg ? "the segment" : "the lock semaphore") + " name behind"); break; }
        if (exists && (!seg || !lck)) { co.fail("failed-new-removes-name", "a p_shm_new that merely FAILED (system call at point " + std::to_string(failpt) + " failed) removed the " + string(!seg ? "segment" : "lock semaphore") + " name of the existing segment: later opens address different memory than the handles opened before"); break; }
        continue;
      }
      if (r == "DEAD") {
        killed_any = true; co.classes.insert("kill_in_shm_new");
        for (auto &h : handles) if (h.first.first == w) h.second.live = false;
        for (auto it = lock_held.begin(); it != lock_held.end();) { if (it->second.first == w) it = lock_held.erase(it); else ++it; }
        // documented clean-up from another process: new -> take_ownership -> free -> new gives a fresh segment of the new size
        int r2 = (w + 1) % P; if (co.ws[(size_t)r2].dead) co.respawn(r2);
        // other live handles of this name would keep the old segment alive; free them first to keep the model simple
        for (auto &h : handles) if (h.second.live && hname[h.first] == name) { co.call(h.first.first, "shm_free " + std::to_string(h.first.second)); h.second.live = false; }
        string a1 = co.call(r2, "shm_new 9 " + name + " 64 0");
        if (a1.rfind("ok", 0) != 0) {
          bool unsized = !exists && (kill == 2 || kill == 3) && a1.rfind("null 22", 0) == 0;
          co.fail(unsized ? "crash-recovery-unsized-segment" : "crash-recovery", "after a process was killed at point " + std::to_string(kill) + " of p_shm_new" + (unsized ? " (segment created but not yet sized)" : "") + ", the clean-up step p_shm_new failed: " + a1);
          break;
        }
        co.call(r2, "shm_own 9"); co.call(r2, "shm_free 9");
        if (vi::exists(vi::shm_file(name)) || vi::exists(vi::shm_lock_file(name))) { co.fail("crash-recovery", "after clean-up (new / take_ownership / free) the segment or its lock semaphore name still exists"); break; }
        string a2 = co.call(r2, "shm_new 9 " + name + " 300 0");
        if (a2 != "ok 300 points=" + a2.substr(a2.find("points=") + 7)) { if (a2.rfind("ok 300", 0) != 0) { co.fail("crash-recovery", "fresh segment after clean-up: " + a2 + " (expected size 300)"); break; } }
        string d = co.call(r2, "shm_load 9 0 300");
        if (d.find_first_not_of("0", 5) != string::npos && d.substr(5, 600).find_first_not_of('0') != string::npos) { co.fail("crash-recovery", "fresh segment after clean-up is not zero-filled"); break; }
        string l = co.call(r2, "shm_lock 9"); if (l.rfind("true", 0) != 0) { co.fail("crash-recovery", "lock of the fresh segment after clean-up: " + l); break; }
        co.call(r2, "shm_unlock 9"); co.call(r2, "shm_own 9"); co.call(r2, "shm_free 9");
        if (name_gen.count(name)) { gens[(size_t)name_gen[name]].linked = false; name_gen.erase(name); }
        continue;
      }
      if (r.rfind("ok", 0) != 0) { co.fail("new", "p_shm_new(size " + std::to_string(size) + ") on " + (exists ? "an existing" : "an absent") + " name failed: " + r); break; }
      size_t reported = (size_t)atol(r.c_str() + 3);
      ShmHandle h; h.live = true; h.arg = size; h.ro = ro; h.reported = reported;
      if (!exists) {
        ShmGen g; g.size = size; g.bytes.assign(size, 0); gens.push_back(g); name_gen[name] = (int)gens.size() - 1; h.owner = true;
        if (reported != size) { co.fail("size", "creator asked for " + std::to_string(size) + " bytes, p_shm_get_size reports " + std::to_string(reported)); break; }
      } else {
        ShmGen &g = gens[(size_t)name_gen[name]];
        if (reported > g.size) { co.fail("size", "handle reports " + std::to_string(reported) + " bytes, the segment has " + std::to_string(g.size)); break; }
        for (auto &o : handles) if (o.second.live && o.second.gen == name_gen[name] && o.second.arg == size && o.second.reported != reported) { co.fail("size", "two handles created with size argument " + std::to_string(size) + " report different sizes"); break; }
        co.classes.insert(size == g.size ? "second_handle_equal_size" : size < g.size ? "second_handle_smaller_size" : "second_handle_larger_size");
      }
      h.gen = name_gen[name]; handles[key] = h; hname[key] = name;
      // every byte below the reported size is accessible
      string t = co.call(w, "shm_touch " + std::to_string(key.second));
      if (t == "DEAD") { co.fail("access", "touching every byte below p_shm_get_size faulted (size argument " + std::to_string(size) + ", segment " + std::to_string(gens[(size_t)h.gen].size) + ")"); break; }
    } else if (s.cmd == "store" || s.cmd == "load") {
      if (!handles[key].live) continue;
      ShmHandle &h = handles[key]; ShmGen &g = gens[(size_t)h.gen];
      if (h.reported == 0) continue;
      long offsel = s.args.size() > 1 ? s.args[1] : 0, lensel = s.args.size() > 2 ? s.args[2] : 1;
      size_t off = offsel % 4 == 0 ? 0 : offsel % 4 == 1 ? h.reported - 1 : offsel % 4 == 2 ? (h.reported > 4096 ? 4095 : h.reported / 2) : (size_t)offsel % h.reported;
      size_t len = 1 + (size_t)lensel % 64; if (off + len > h.reported) len = h.reported - off;
      if (s.cmd == "store") {
        if (h.ro) continue;
        unsigned seed = (unsigned)(s.args.size() > 3 ? s.args[3] : 1);
        co.call(w, "shm_store " + std::to_string(key.second) + " " + std::to_string(off) + " " + std::to_string(len) + " " + std::to_string(seed));
        string b = pattern_bytes(len, seed); memcpy(&g.bytes[off], b.data(), len);
      } else {
        string r = co.call(w, "shm_load " + std::to_string(key.second) + " " + std::to_string(off) + " " + std::to_string(len));
        if (co.bad()) break;
        string want = "data " + vl::hex(string((char *)&g.bytes[off], len));
        if (r.substr(0, want.size()) != want) { co.fail("same-bytes", "bytes at offset " + std::to_string(off) + " read through this handle differ from what was stored through the handles of this segment"); break; }
        cross_read = true;
      }
    } else if (s.cmd == "lock") {
      if (!handles[key].live) continue;
      int gen = handles[key].gen;
      if (!lock_held.count(gen)) {
        string r = co.call(w, "shm_lock " + std::to_string(key.second) + (s.kill ? " kill=" + std::to_string(s.kill) : ""));
        if (r == "DEAD") { killed_any = true; for (auto &h : handles) if (h.first.first == w) h.second.live = false; continue; }
        if (r.rfind("true", 0) != 0 && !co.bad()) { co.fail("lock", "p_shm_lock on a free lock returned " + r); break; }
        lock_held[gen] = key;
      } else if (lock_held[gen].first != w) {
        // held by another process: this lock must block until the holder unlocks
        auto holder = lock_held[gen];
        if (co.ws[(size_t)holder.first].dead) continue;
        co.send(w, "shm_lock " + std::to_string(key.second));
        string r;
        if (co.recv_poked(w, r, co.grace_ms)) { co.fail("lock-exclusion", "p_shm_lock returned (" + r + ") while another process holds the lock of the same segment (signals were delivered to the waiting process meanwhile)"); break; }
        co.call(holder.first, "shm_unlock " + std::to_string(holder.second));
        if (!co.recv(w, r, 10000)) { co.out.inconclusive = true; break; }
        if (r.rfind("true", 0) != 0) { co.fail("lock", "blocked p_shm_lock completed with " + r); break; }
        lock_held[gen] = key; co.classes.insert("lock_blocked_then_granted");
      }
    } else if (s.cmd == "unlock") {
      if (!handles[key].live) continue;
      int gen = handles[key].gen;
      if (lock_held.count(gen) && lock_held[gen] == key) { co.call(w, "shm_unlock " + std::to_string(key.second)); lock_held.erase(gen); }
    } else if (s.cmd == "own") {
      if (!handles[key].live) continue;
      co.call(w, "shm_own " + std::to_string(key.second)); handles[key].owner = true;
    } else if (s.cmd == "free") {
      if (!handles[key].live) continue;
      ShmHandle h = handles[key]; string name = hname[key];
      if (lock_held.count(h.gen) && lock_held[h.gen] == key) { co.call(w, "shm_unlock " + std::to_string(key.second)); lock_held.erase(h.gen); }
      co.call(w, "shm_free " + std::to_string(key.second)); handles[key].live = false;
      if (h.owner) {
        if (vi::exists(vi::shm_file(name)) || vi::exists(vi::shm_lock_file(name))) { co.fail("owner-free", "an owner freed the segment but its name (or its lock semaphore's name) still exists"); break; }
        if (name_gen.count(name)) { gens[(size_t)name_gen[name]].linked = false; name_gen.erase(name); }
        co.classes.insert("owner_free");
      }
    } else if (s.cmd == "phase") {
      // N processes x M rounds of lock; non-atomic counter++ in the segment; unlock
      if (!handles[key].live) continue;
      int gen = handles[key].gen; if (lock_held.count(gen)) continue;
      ShmGen &g = gens[(size_t)gen];
      vector<std::pair<int, int>> parts; std::set<int> used;
      for (auto &o : handles) if (o.second.live && o.second.gen == gen && !o.second.ro && o.second.reported >= 8 && !used.count(o.first.first) && !co.ws[(size_t)o.first.first].dead) { parts.push_back(o.first); used.insert(o.first.first); }
      if (parts.size() < 2) continue;
      co.call(parts[0].first, "shm_store " + std::to_string(parts[0].second) + " 0 8 0"); // then zero the counter
      // zero 8 bytes: store pattern then overwrite model; simpler: read current counter value as baseline
      string base = co.call(parts[0].first, "shm_load " + std::to_string(parts[0].second) + " 0 8");
      long b0 = 0; { string hx = base.substr(5, 16); string raw = vl::unhex(hx); memcpy(&b0, raw.data(), 8); }
      g_page->inside[1] = 0; g_page->max_inside[1] = 0;
      long rounds = thorough ? 4000 : 800;
      for (auto &p : parts) co.send(p.first, "shm_phase " + std::to_string(p.second) + " " + std::to_string(rounds) + " 1");
      for (auto &p : parts) { string r; if (!co.recv(p.first, r, 60000)) { co.out.inconclusive = true; break; } if (r.rfind("ok", 0) != 0) co.fail("phase", "lock phase: worker reported " + r); }
      if (co.bad()) break;
      string fin = co.call(parts[0].first, "shm_load " + std::to_string(parts[0].second) + " 0 8");
      long f1 = 0; { string raw = vl::unhex(fin.substr(5, 16)); memcpy(&f1, raw.data(), 8); memcpy(&g.bytes[0], raw.data(), 8); }
      if (g_page->max_inside[1] > 1) { co.fail("lock-exclusion", std::to_string(g_page->max_inside[1].load()) + " processes were inside p_shm_lock/p_shm_unlock of one segment at the same time"); break; }
      if (f1 - b0 != rounds * (long)parts.size()) { co.fail("lock-exclusion", "non-atomic counter under p_shm_lock ended at +" + std::to_string(f1 - b0) + " instead of +" + std::to_string(rounds * (long)parts.size()) + " (lost updates)"); break; }
      co.classes.insert("lock_phase"); cross_read = true;
    } else if (s.cmd == "huge") {
      // a segment beyond 4 GiB (sparse on tmpfs, a handful of pages are touched): "p_shm_get_size reports the segment size ... every byte
      // below it is accessible ... a byte stored through one handle is read back through every other handle" - at offsets on both
      // sides of 2^32 and at the very end.  A worker that dies touching such a byte is the verdict.
      size_t H = ((size_t)1 << 32) + 8192 + 123;
      string name = co.uniq + "huge"; co.names_used.insert(name);
      int w2 = (w + 1) % P; if (co.ws[(size_t)w2].dead) co.respawn(w2);
      string a = co.call(w, "shm_new 8 " + name + " " + std::to_string(H) + " 0");
      if (a.rfind("ok", 0) != 0) { co.out.inconclusive = true; vl::stats().count("huge_segment_not_created"); continue; }
      string b = co.call(w2, "shm_new 8 " + name + " " + std::to_string(H) + " 0");
      auto reports = [&](const string &r) { string want = "ok " + std::to_string(H); return r.rfind(want, 0) == 0 && (r.size() == want.size() || r[want.size()] == ' '); };
      if (!reports(a) || !reports(b)) co.fail("size", "a segment created with " + std::to_string(H) + " bytes: creator reports '" + a + "', second handle '" + b + "'");
      static const size_t offs[] = {0, 4095, 4096, ((size_t)1 << 32) - 7, ((size_t)1 << 32), ((size_t)1 << 32) + 4096, 0 /* H - 7 */};
      for (int i = 0; i < 7 && !co.bad(); i++) {
        size_t off = i == 6 ? H - 7 : offs[i];
        string st = co.call(w2, "shm_store 8 " + std::to_string(off) + " 7 " + std::to_string(100 + i));
        if (st == "DEAD") { co.fail("huge-inaccessible", "a process died storing 7 bytes at offset " + std::to_string(off) + " of a segment whose p_shm_get_size is " + std::to_string(H) + ": bytes below the reported size are not mapped"); break; }
        string ld = co.call(w, "shm_load 8 " + std::to_string(off) + " 7");
        if (ld == "DEAD") { co.fail("huge-inaccessible", "a process died loading 7 bytes at offset " + std::to_string(off) + " of a segment whose p_shm_get_size is " + std::to_string(H) + ": bytes below the reported size are not mapped"); break; }
        if (ld.rfind("data " + vl::hex(pattern_bytes(7, (unsigned)(100 + i))), 0) != 0) { co.fail("same-bytes", "bytes stored through one handle at offset " + std::to_string(off) + " of a " + std::to_string(H) + "-byte segment are not what another handle reads there"); break; }
      }
      co.classes.insert("segment_beyond_4GiB");
      if (!co.ws[(size_t)w2].dead) co.call(w2, "shm_free 8");
      if (!co.ws[(size_t)w].dead) { co.call(w, "shm_own 8"); co.call(w, "shm_free 8"); }
      cross_read = true;
    } else if (s.cmd == "race") {
      // first-use race: worker w creates an absent name and is paused at point `pause`; another worker does a whole p_shm_new in the gap
      long nidx = s.args.size() > 1 ? s.args[1] : 0; size_t size = sizes[(s.args.size() > 2 ? s.args[2] : 0) % 8];
      string name = fullname(nidx);
      if (name_gen.count(name) || handles[key].live) continue;
      if (vl::excluded("first-use-race")) { vl::stats().count("excluded_first_use_race"); continue; }
      int w2 = (w + 1) % P; if (co.ws[(size_t)w2].dead) co.respawn(w2);
      auto key2 = std::make_pair(w2, 2);
      if (handles[key2].live) continue;
      int pause = 1 + (s.pause > 0 ? s.pause - 1 : 0) % 12;
      if (pause >= 4 && pause <= 9 && vl::excluded("first-use-race-window")) { static const int alt[] = {1, 2, 3, 10, 11, 12}; pause = alt[pause % 6]; vl::stats().count("excluded_race_window_remapped"); }
      co.send(w, "shm_new " + std::to_string(key.second) + " " + name + " " + std::to_string(size) + " 0 pause=" + std::to_string(pause));
      string r1, r2;
      if (!co.recv(w, r1, 10000)) { co.out.inconclusive = true; break; }
      bool paused = r1.rfind("paused", 0) == 0;
      if (paused) {
        r2 = co.call(w2, "shm_new 2 " + name + " " + std::to_string(size) + " 0");
        string m = "resume\n"; ssize_t wr = write(co.ws[(size_t)w].fd, m.data(), m.size()); (void)wr;
        if (!co.recv(w, r1, 10000)) { co.out.inconclusive = true; break; }
      } else r2 = co.call(w2, "shm_new 2 " + name + " " + std::to_string(size) + " 0");
      bool ok1 = r1.rfind("ok", 0) == 0, ok2 = r2.rfind("ok", 0) == 0;
      co.classes.insert(paused ? "first_use_race_paused" : "first_use_race_not_reached");
      if (ok1 && ok2) {
        race_both = true;
        // same bytes
        co.call(w, "shm_store " + std::to_string(key.second) + " 0 1 77");
        string a = co.call(w, "shm_load " + std::to_string(key.second) + " 0 1"), b = co.call(w2, "shm_load 2 0 1");
        if (a.substr(0, 7) != b.substr(0, 7)) { co.fail("race-same-bytes", "two processes opened the name for the first time concurrently (second one at point " + std::to_string(pause) + " of the first): both succeeded but address different memory"); }
        // one system-wide lock
        if (!co.bad()) {
          string l1 = co.call(w, "shm_lock " + std::to_string(key.second));
          co.send(w2, "shm_lock 2"); string l2;
          if (co.recv(w2, l2, co.grace_ms)) co.fail(pause >= 4 && pause <= 9 ? "first-use-race-window" : "race-lock", "two processes opened the name for the first time concurrently (second one at point " + std::to_string(pause) + " of the first): both succeeded but their locks do not exclude each other");
          else { co.call(w, "shm_unlock " + std::to_string(key.second)); if (!co.recv(w2, l2, 10000)) co.out.inconclusive = true; else co.call(w2, "shm_unlock 2"); }
        }
      } else if (!ok1 && !ok2 && paused) {
        co.fail("race-both-failed", "two processes opened the name for the first time concurrently and both p_shm_new calls failed: " + r1 + " / " + r2);
      } else if (paused && (ok1 != ok2)) {
        // one of them failed: a later open must still address the same memory as the surviving handle (no owner free happened in between... the failed call's clean-up must not destroy the survivor's name)
        int sw = ok1 ? w : w2; int ss = ok1 ? key.second : 2;
        int w3 = (w + 2) % P; if (co.ws[(size_t)w3].dead) co.respawn(w3);
        string r3 = co.call(w3, "shm_new 8 " + name + " " + std::to_string(size) + " 0");   // slot 8: never used by generated steps
        if (r3.rfind("ok", 0) == 0) {
          co.call(sw, "shm_store " + std::to_string(ss) + " 0 1 99");
          string a = co.call(sw, "shm_load " + std::to_string(ss) + " 0 1"), b = co.call(w3, "shm_load 8 0 1");
          if (a.substr(0, 7) != b.substr(0, 7)) co.fail("race-same-bytes", "concurrent first opens (second at point " + std::to_string(pause) + " of the first): one failed (" + (ok1 ? r2 : r1) + ") and its clean-up removed the name, so a third open addresses different memory than the surviving handle");
          co.call(w3, "shm_own 8"); co.call(w3, "shm_free 8");
        }
        race_both = true;
      }
      // clean up the race objects
      if (ok1) { co.call(w, "shm_own " + std::to_string(key.second)); co.call(w, "shm_free " + std::to_string(key.second)); }
      if (ok2) { co.call(w2, "shm_own 2"); co.call(w2, "shm_free 2"); }
      shm_unlink(("/" + vi::key13(name + "_p_shm_object")).c_str());
      sem_unlink(("/" + vi::key13("/" + vi::key13(name + "_p_shm_object") + "_p_sem_object")).c_str());
    }
  }
  co.shutdown();
  for (auto &n : co.names_used) { shm_unlink(("/" + vi::key13(n + "_p_shm_object")).c_str()); sem_unlink(("/" + vi::key13("/" + vi::key13(n + "_p_shm_object") + "_p_sem_object")).c_str()); }
  for (auto &k : co.classes) vl::stats().klass(k);
  co.out.nontrivial = cross_read || race_both || killed_any;
  return co.out;
}

// ---- C08 multi-process layer ---------------------------------------------------------------------------------
Outcome run_c08(const Case &c, bool thorough) {
  Coord co; char u[64]; { struct timespec ts; clock_gettime(CLOCK_MONOTONIC, &ts); snprintf(u, sizeof u, "v8_%d_%lx_", (int)getpid(), (long)(ts.tv_sec * 1000000000L + ts.tv_nsec)); } co.uniq = u;  /* pid + time: a recycled pid must never meet a stale name of an interrupted run */
  co.hang_is_verdict = true; co.case_text = to_text(c); co.prop = "C08";
  int P = 3; co.spawn(P);
  string name = co.uniq + string((size_t)c.pad, 'n') + "b"; co.names_used.insert(name);
  size_t S = 64;
  for (auto &s : c.steps) if (s.cmd == "cap" && !s.args.empty()) { static const size_t caps[] = {1, 2, 3, 7, 8, 64, 300, 1024}; S = caps[s.args[0] % 8]; break; }
  std::deque<unsigned char> model;
  std::map<std::pair<int, int>, bool> live;
  bool multi = false, wrapped = false; size_t wpos = 0;
  // creator in worker 0 slot 0
  string r = co.call(0, "buf_new 0 " + name + " " + std::to_string(S));
  if (r.rfind("ok", 0) != 0) { co.fail("new", "p_shm_buffer_new failed: " + r); co.shutdown(); return co.out; }
  co.call(0, "buf_clear 0");
  live[{0, 0}] = true;
  auto num = [](const string &r) { return atol(r.c_str() + 2); };
  auto spaces = [&](std::pair<int, int> k, const char *when) {
    string u1 = co.call(k.first, "buf_used " + std::to_string(k.second)), f1 = co.call(k.first, "buf_free_space " + std::to_string(k.second));
    if (co.bad()) return;
    if (num(u1) != (long)model.size() || num(f1) != (long)(S - model.size())) co.fail("spaces", string(when) + ": used/free seen through a handle in process " + std::to_string(k.first) + " = " + std::to_string(num(u1)) + "/" + std::to_string(num(f1)) + ", model " + std::to_string(model.size()) + "/" + std::to_string(S - model.size()));
  };
  unsigned long produced = 0;
  for (auto &s : c.steps) {
    if (co.bad()) break;
    int w = s.worker % P; auto key = std::make_pair(w, (int)(s.args.size() > 0 ? s.args[0] % 2 : 0));
    if (s.cmd == "open") {
      if (live[key]) continue;
      string rr = co.call(w, "buf_new " + std::to_string(key.second) + " " + name + " " + std::to_string(S));
      if (rr.rfind("ok", 0) != 0) { co.fail("open", "opening the existing buffer from process " + std::to_string(w) + " failed: " + rr); break; }
      live[key] = true; if (w != 0) multi = true;
      spaces(key, "after opening a handle in another process");
    } else if (s.cmd == "close") { if (live[key] && !(key.first == 0 && key.second == 0)) { co.call(w, "buf_free " + std::to_string(key.second)); live[key] = false; } }
    else if (s.cmd == "write") {
      if (!live[key]) continue;
      size_t fr = S - model.size(); long sel = s.args.size() > 1 ? s.args[1] : 0; long n = s.args.size() > 2 ? s.args[2] : 1;
      size_t len = sel % 6 == 1 ? (fr ? fr - 1 : 1) : sel % 6 == 2 ? fr : sel % 6 == 3 ? fr + 1 : sel % 6 == 4 ? S + 1 : (size_t)(1 + n % (long)(S + 1));
      if (len == 0) len = 1;
      unsigned seed = (unsigned)(produced + 17);
      string rr = co.call(w, "buf_write " + std::to_string(key.second) + " " + std::to_string(len) + " " + std::to_string(seed));
      if (co.bad()) break;
      long got = num(rr);
      if (len <= fr) { if (got != (long)len) { co.fail("write-fit", "write of " + std::to_string(len) + " with " + std::to_string(fr) + " free returned " + std::to_string(got)); break; } string b = pattern_bytes(len, seed); for (unsigned char ch : b) model.push_back(ch); produced += len; if (wpos + len > S + 1) wrapped = true; wpos = (wpos + len) % (S + 1); }
      else if (got != 0) { co.fail("write-refuse", "write of " + std::to_string(len) + " with " + std::to_string(fr) + " free returned " + std::to_string(got)); break; }
    } else if (s.cmd == "read") {
      if (!live[key]) continue;
      size_t us = model.size(); long sel = s.args.size() > 1 ? s.args[1] : 0; long n = s.args.size() > 2 ? s.args[2] : 1;
      size_t len = sel % 5 == 1 ? (us ? us : 1) : sel % 5 == 2 ? us + 1 : sel % 5 == 3 ? S + 1 : (size_t)(1 + n % (long)(S + 1));
      string rr = co.call(w, "buf_read " + std::to_string(key.second) + " " + std::to_string(len));
      if (co.bad()) break;
      auto parts = vl::split_ws(rr);
      long got = parts.size() > 1 ? atol(parts[1].c_str()) : -9; size_t want = std::min(len, us);
      if (got != (long)want) { co.fail("read-count", "read of " + std::to_string(len) + " with " + std::to_string(us) + " used returned " + std::to_string(got)); break; }
      if (parts.size() > 4 && parts[3] == "beyond") { co.fail("read-beyond-count", "read of " + std::to_string(len) + " with " + std::to_string(us) + " used returned " + std::to_string(got) + " but overwrote the caller's storage at offset " + parts[4] + ", beyond the bytes it reported"); break; }
      if (want) { string data = vl::unhex(parts.size() > 2 ? parts[2] : ""); for (size_t i = 0; i < want; i++) if ((unsigned char)data[i] != model[i]) { co.fail("read-data", "bytes read in process " + std::to_string(w) + " differ from the FIFO model (written by other processes)"); break; } model.erase(model.begin(), model.begin() + (long)want); }
    } else if (s.cmd == "clear") { if (live[key]) { co.call(w, "buf_clear " + std::to_string(key.second)); model.clear(); wpos = 0; } }
    else if (s.cmd == "query") { if (live[key]) spaces(key, "query"); }
    else if (s.cmd == "pc") {
      // concurrent producers / one consumer moving frames; needs an empty buffer and capacity for a whole frame
      if (S < 64 || !model.empty()) continue;
      vector<std::pair<int, int>> hs; std::set<int> used;
      for (auto &kv : live) if (kv.second && !used.count(kv.first.first)) { hs.push_back(kv.first); used.insert(kv.first.first); }
      if (hs.size() < 2) continue;
      long frames = thorough ? 3000 : 400; long maxlen = std::min<long>(40, (long)S / 2 - 3);
      int nprod = (int)hs.size() - 1;
      co.send(hs[0].first, "buf_cons " + std::to_string(hs[0].second) + " " + std::to_string(frames * nprod));
      for (int i = 0; i < nprod; i++) co.send(hs[(size_t)i + 1].first, "buf_prod " + std::to_string(hs[(size_t)i + 1].second) + " " + std::to_string(frames) + " " + std::to_string(i + 1) + " " + std::to_string(maxlen));
      g_page->rounds_done = 0;
      // collect every reply first: a consumer that saw a damaged frame stops reading, which in turn blocks the producers
      bool producers_ok = true, producers_stuck = false; string prod_err;
      for (size_t hi = 1; hi < hs.size(); hi++) { string rr; if (!co.recv(hs[hi].first, rr, 120000)) { co.out.inconclusive = true; break; } if (getenv("IPCX_DEBUG")) fprintf(stderr, "producer %zu: %s\n", hi, rr.c_str()); if (rr.rfind("ok", 0) != 0) { producers_ok = false; if (rr.rfind("stuck", 0) == 0) producers_stuck = true; else prod_err = rr.substr(0, rr.find(' ')); } }
      g_page->rounds_done = producers_ok ? 1 : 2;   // tells the consumer that nothing more will be written
      if (!co.out.inconclusive) {
        string rr;
        if (!co.recv(hs[0].first, rr, 120000)) co.out.inconclusive = true;
        else {
          if (getenv("IPCX_DEBUG")) fprintf(stderr, "consumer: %s\n", rr.c_str());
          if (rr.rfind("frames-missing", 0) == 0 && producers_ok) co.fail("concurrent-lost-write", "concurrent producers/consumer: every producer write returned its full length, yet only " + rr.substr(15, rr.find(" points") - 15) + " frames ever arrived (a successful write was overwritten or lost: writes are not atomic with respect to each other)");
          else if (rr.rfind("frame-", 0) == 0 || rr.rfind("trailing", 0) == 0 || rr.rfind("read-failed", 0) == 0) co.fail("concurrent", "concurrent producers/consumer: the consumer saw " + rr.substr(0, rr.find(' ')) + " (frames written atomically by concurrent producers must arrive whole and in order per producer)");
          else if (!prod_err.empty()) co.fail("concurrent", "concurrent producers: " + prod_err);
          else if (rr.rfind("ok", 0) != 0 || producers_stuck) co.out.inconclusive = true;
        }
      }
      g_page->rounds_done = 0;
      if (co.bad()) break;
      co.classes.insert("producer_consumer_phase"); multi = true; wrapped = true; wpos = 0;
      // ring positions moved; resynchronise the classification model only (queue is empty again)
    }
  }
  if (!co.bad()) for (auto &kv : live) if (kv.second && !co.bad()) spaces(kv.first, "final scan");
  co.call(0, "buf_own 0");
  for (auto &kv : live) if (kv.second && !(kv.first.first == 0 && kv.first.second == 0)) co.call(kv.first.first, "buf_free " + std::to_string(kv.first.second));
  co.call(0, "buf_free 0");
  co.shutdown();
  shm_unlink(("/" + vi::key13(name + "_p_shm_object")).c_str()); sem_unlink(("/" + vi::key13("/" + vi::key13(name + "_p_shm_object") + "_p_sem_object")).c_str());
  for (auto &k : co.classes) vl::stats().klass(k);
  co.out.nontrivial = multi && wrapped;
  return co.out;
}

Outcome run_case(const Case &c) {
  bool thorough = vl::env("VERIF_TIER", "quick") == "thorough";
  Outcome o = c.prop == "C06" ? run_c06(c, thorough) : c.prop == "C07" ? run_c07(c, thorough) : run_c08(c, thorough);
  o.fp = vl::fnv1a(to_text(c));
  return o;
}

// ---- generators ---------------------------------------------------------------------------------------------------
rc::Gen<int> rng(int lo, int hi) { return rc::gen::resize(100, rc::gen::inRange(lo, hi)); }
rc::Gen<Step> genStep(const string &prop, bool kills) {
  using namespace rc;
  if (prop == "C06") {
    auto cmd = gen::weightedElement<string>({{8, "new"}, {12, "acq"}, {5, "rel"}, {2, "own"}, {3, "free"}, {2, "phase"}, {2, "race"}});
    return gen::map(gen::tuple(rng(0, 3), cmd, rng(0, 3), rng(0, 2), gen::weightedElement<long>({{4, 0}, {4, 1}, {4, 2}, {4, 3}, {4, 7}, {1, 32767}, {1, 32768}, {1, 65536}, {1, 2147483647}}), rng(0, 2), kills ? gen::weightedOneOf<int>({{6, gen::just(0)}, {1, rng(1, 9)}}) : gen::just(0)),
                    [](const std::tuple<int, string, int, int, long, int, int> &t) { Step s; s.worker = std::get<0>(t); s.cmd = std::get<1>(t); s.args = {std::get<2>(t), std::get<3>(t), std::get<4>(t), std::get<5>(t)}; if (s.cmd == "new" || s.cmd == "free" || s.cmd == "acq") s.kill = std::get<6>(t); if (s.cmd == "race") s.pause = 1 + (std::get<2>(t) / 2 + std::get<5>(t)) % 6; return s; });
  }
  if (prop == "C07") {
    auto cmd = gen::weightedElement<string>({{8, "new"}, {8, "store"}, {8, "load"}, {5, "lock"}, {3, "unlock"}, {1, "own"}, {3, "free"}, {2, "phase"}, {2, "race"}});
    return gen::map(gen::tuple(rng(0, 3), cmd, rng(0, 3), rng(0, 2), rng(0, 8), rng(0, 1000), kills ? gen::weightedOneOf<int>({{6, gen::just(0)}, {1, rng(1, 25)}}) : gen::just(0), rng(1, 13)),
                    [](const std::tuple<int, string, int, int, int, int, int, int> &t) { Step s; s.worker = std::get<0>(t); s.cmd = std::get<1>(t);
                      if (s.cmd == "store" || s.cmd == "load") s.args = {std::get<2>(t), std::get<3>(t) + std::get<5>(t) % 7, std::get<4>(t) + std::get<5>(t), std::get<5>(t)};
                      else s.args = {std::get<2>(t), std::get<3>(t), std::get<4>(t), std::get<5>(t)};
                      if (s.cmd == "new" || s.cmd == "lock") s.kill = std::get<6>(t);
                      if (s.cmd == "new" && s.kill == 0 && std::get<5>(t) % 6 == 0) s.fail = 1 + 2 * (std::get<7>(t) % 7);   // a BEFORE point (odd numbers) of p_shm_new
                      if (s.cmd == "race") s.pause = std::get<7>(t);
                      return s; });
  }
  auto cmd = gen::weightedElement<string>({{5, "open"}, {1, "close"}, {10, "write"}, {9, "read"}, {1, "clear"}, {2, "query"}, {2, "pc"}});
  return gen::map(gen::tuple(rng(0, 3), cmd, rng(0, 2), rng(0, 6), rng(0, 2000)), [](const std::tuple<int, string, int, int, int> &t) { Step s; s.worker = std::get<0>(t); s.cmd = std::get<1>(t); s.args = {std::get<2>(t), std::get<3>(t), std::get<4>(t)}; return s; });
}
rc::Gen<Case> genCase(const string &prop, bool kills) {
  using namespace rc;
  return gen::map(gen::tuple(gen::resize(18, gen::container<vector<Step>>(genStep(prop, kills))), rng(0, 8), gen::weightedElement<int>({{6, 0}, {1, 30}, {1, 45}, {1, 100}, {1, 400}})), [prop](const std::tuple<vector<Step>, int, int> &t) {
    Case c; c.prop = prop; c.steps = std::get<0>(t); c.pad = std::get<2>(t);
    if (prop == "C08") { Step s; s.cmd = "cap"; s.args = {std::get<1>(t)}; c.steps.insert(c.steps.begin(), s); }
    return c; });
}

int g_failed = 0;
void exec(const string &sub, const Case &c, bool rc_mode) {
  string text = to_text(c);
  vl::set_current_case(sub.c_str(), text);
  Outcome o = run_case(c);
  if (o.inconclusive) { vl::stats().count("inconclusive_cases"); return; }
  vl::stats().record(text, o.nontrivial, o.fp);
  if (!o.verdict.empty()) { vl::report_failure(sub + "_" + o.klass, text, c.prop + ":" + o.klass + ": " + o.verdict, o.klass); if (rc_mode) RC_FAIL(o.verdict); g_failed++; }
}

// enumeration sub-runs: every kill point of p_semaphore_new / free / acquire and p_shm_new / lock; every pause point of the first-use race
void enumerate(const string &prop, long shard, long nshards) {
  long idx = 0;
  if (prop == "C06") {
    for (int mode = 0; mode < 2; mode++)
      for (int pre = 0; pre < 2; pre++)        // name absent / existing
        for (int k = 1; k <= 8; k++) {
          if ((idx++ % nshards) != shard) continue;
          if (pre && mode == 1 && vl::excluded("create-on-existing")) continue;
          Case c; c.prop = "C06";
          if (pre) { Step a; a.worker = 1; a.cmd = "new"; a.args = {0, 0, 2, 1}; c.steps.push_back(a); }
          Step s; s.worker = 0; s.cmd = "new"; s.args = {0, 0, 3, mode}; s.kill = k; c.steps.push_back(s);
          exec("killenum", c, false);
        }
    for (const char *cmd : {"free", "acq"})
      for (int owner = 0; owner < 2; owner++)
        for (int k = 1; k <= 6; k++) {
          if ((idx++ % nshards) != shard) continue;
          Case c; c.prop = "C06";
          Step a; a.worker = 1; a.cmd = "new"; a.args = {0, 0, 2, 1}; c.steps.push_back(a);
          Step b; b.worker = 0; b.cmd = "new"; b.args = {0, 0, 2, 0}; c.steps.push_back(b);
          if (owner) { Step o; o.worker = 0; o.cmd = "own"; o.args = {0}; c.steps.push_back(o); }
          Step s; s.worker = 0; s.cmd = cmd; s.args = {0}; s.kill = k; c.steps.push_back(s);
          Step d; d.worker = 1; d.cmd = "rel"; d.args = {0}; c.steps.push_back(d);
          exec("killenum", c, false);
        }
    for (int creating = 0; creating < 2; creating++)
      for (int k = 1; k <= 6; k++) {
        if ((idx++ % nshards) != shard) continue;
        Case c; c.prop = "C06";
        Step s; s.worker = 0; s.cmd = "race"; s.args = {creating, k, k, creating}; s.pause = k; c.steps.push_back(s);
        exec("raceenum", c, false);
      }
    vl::stats().exhaustive["C06_every_kill_point_of_new(OPEN|CREATE,absent|existing)_free_acquire"] = true;
    vl::stats().exhaustive["C06_every_pause_point_of_an_OPEN_or_CREATE_open_overlapping_the_owners_free"] = true;
  } else if (prop == "C07") {
    for (int pre = 0; pre < 2; pre++)
      for (int szi : {2, 6})
        for (int k = 1; k <= 22; k++) {
          if ((idx++ % nshards) != shard) continue;
          Case c; c.prop = "C07";
          if (pre) { Step a; a.worker = 1; a.cmd = "new"; a.args = {0, 0, szi, 1}; c.steps.push_back(a); }
          Step s; s.worker = 0; s.cmd = "new"; s.args = {0, 0, szi, 1}; s.kill = k; c.steps.push_back(s);
          exec("killenum", c, false);
        }
    for (int k = 1; k <= 12; k++)
      for (int szi : {2, 5, 7}) {
        if ((idx++ % nshards) != shard) continue;
        Case c; c.prop = "C07";
        Step s; s.worker = 0; s.cmd = "race"; s.args = {0, 0, szi, 0}; s.pause = k; c.steps.push_back(s);
        exec("raceenum", c, false);
      }
    if ((idx++ % nshards) == shard) { Case c; c.prop = "C07"; Step s; s.worker = 0; s.cmd = "huge"; s.args = {0}; c.steps.push_back(s); exec("hugeenum", c, false); }
    vl::stats().exhaustive["C07_every_kill_point_of_p_shm_new_and_every_pause_point_of_the_first_use_race"] = true;
  } else if (prop == "C08") {
    // concurrent producers (2 processes) and one consumer on every capacity class that can hold a frame; repeated
    for (int rep = 0; rep < 6; rep++)
      for (int capi : {5, 6, 7}) {
        if ((idx++ % nshards) != shard) continue;
        Case c; c.prop = "C08";
        Step cap; cap.cmd = "cap"; cap.args = {capi}; c.steps.push_back(cap);
        for (int w = 1; w <= 2; w++) { Step o; o.worker = w; o.cmd = "open"; o.args = {0, 0, 0}; c.steps.push_back(o); }
        Step pc; pc.worker = 0; pc.cmd = "pc"; pc.args = {0, 0, 0}; c.steps.push_back(pc);
        Step q; q.worker = 1; q.cmd = "query"; q.args = {0, 0, 0}; c.steps.push_back(q);
        Step pc2 = pc; c.steps.push_back(pc2);
        exec("pcenum", c, false);
      }
  }
}

int run_generated() {
  string prop = vl::env("VERIF_PROP", "C06");
  string sub = vl::env("VERIF_SUB", "all");
  long shard = vl::envl("VERIF_SHARD", 0), nshards = vl::envl("VERIF_NSHARDS", 1);
  if (sub == "enum") { enumerate(prop, shard, nshards); return g_failed; }
  bool kills = sub == "kills";
  bool ok = rc::check("multi-process IPC histories", [&] { Case c = *genCase(prop, kills); exec(kills ? "kills" : "hist", c, true); });
  if (!ok) g_failed++;
  return g_failed;
}
string run_replay(const string &text) {
  Case c; if (!from_text(text, c)) return "unparsable case";
  Outcome o = run_case(c);
  if (o.inconclusive) { printf("INCONCLUSIVE\n"); return ""; }
  return o.verdict.empty() ? "" : c.prop + ":" + o.klass + ": " + o.verdict;
}
} // namespace

int main(int argc, char **argv) {
  p_libsys_init();
  signal(SIGPIPE, SIG_IGN);
  g_page = (SharedPage *)mmap(NULL, 4096, PROT_READ | PROT_WRITE, MAP_SHARED | MAP_ANONYMOUS, -1, 0);
  memset((void *)g_page, 0, sizeof(SharedPage));
  return vl::harness_main(argc, argv, run_generated, run_replay);
}
