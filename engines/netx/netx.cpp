// netx.cpp - socket harness with libc fault wrappers (C09 data integrity under retries, C10 modes and
// lifecycle, C19 transparency to signal interruptions).  Built in the gcc-asan-wrapnet configuration:
// the libc calls of psocket.o / psysclose-unix.o / puthread.o / psemaphore-posix.o / pshm-posix.o are
// redirected to the vn_* wrappers below (objcopy --redefine-syms), which count calls per API call and
// consume a generated fault plan: (call, k-th invocation, EINTR | EAGAIN | SHORT(n), burst length).
// Injected EINTR/EAGAIN are side-effect free (the real call is not made); SHORT(n) makes the real call
// with a reduced length.  The peer endpoint is driven with raw BSD sockets that are not wrapped.
#include <rapidcheck.h>
#include "../../vlib/vlib.h"
#include "../../vlib/vipc.h"
#include <sys/socket.h>
#include <netinet/in.h>
#include <netinet/tcp.h>
#include <arpa/inet.h>
#include <poll.h>
#include <fcntl.h>
#include <stdarg.h>
#include <pthread.h>
#include <semaphore.h>
#include <sys/mman.h>
#include <time.h>
#include <signal.h>
#include <atomic>
#include <thread>
#include <mutex>
#include <deque>
#include <set>
#include <memory>
#include <sys/syscall.h>
extern "C" {
#include <plibsys.h>
}
using std::string;
using std::vector;

// ======================================================================================================
// wrappers
// ======================================================================================================
struct Fault { string call; int k = 1; int kind = 1; int arg = 0; int burst = 1; }; // kind 1 EINTR 2 EAGAIN 3 SHORT
struct WrapState {
  vector<Fault> plan;
  std::map<string, int> count;   // invocations per call since arm()
  bool armed = false;
  long calls_total = 0;          // every wrapped call (armed or not) - used for "no descriptor touched"
  long polls = 0;
  long faults_consumed = 0;
  std::map<string, long> consumed_by;
  pthread_t owner;               // only calls of this thread are faulted / counted (the peer thread uses raw calls anyway)
  std::atomic<long> in_syscall_signals{0};
  std::atomic<int> inside_blocking{0};
  const char *force_eagain = nullptr; Fault forced;   // C10: the next invocation of this call reports EAGAIN once (a full buffer, as a non-blocking socket sees it)
  bool gate_eagain = false, eagain_ok = false; // C10: a would-block fault is only delivered to calls on a blocking socket (on a non-blocking one reporting it is correct)
};
static WrapState W;
// descriptor ledger: every descriptor the library obtains (socket, accept, shm_open) must be closed by the library exactly once -
// a close of a descriptor it does not hold (second close, foreign descriptor) and a descriptor still open after every object was
// freed are both failures
struct Ledger { std::mutex mx; std::set<int> open; long opened = 0, closed_ok = 0, bad_close = 0; int bad_fd = -1; bool on = false; };
static Ledger LG;
static void ledger_open(int fd) { if (fd < 0 || !LG.on) return; std::lock_guard<std::mutex> g(LG.mx); LG.open.insert(fd); LG.opened++; }
static void ledger_close(int fd) { if (!LG.on) return; std::lock_guard<std::mutex> g(LG.mx); if (LG.open.erase(fd)) LG.closed_ok++; else { LG.bad_close++; LG.bad_fd = fd; } }
static const Fault *consume(const char *call) {
  W.calls_total++;
  if (!W.armed || !pthread_equal(pthread_self(), W.owner)) return nullptr;
  if (W.force_eagain && !strcmp(W.force_eagain, call)) { W.force_eagain = nullptr; W.forced.kind = 2; W.faults_consumed++; W.consumed_by[string(call) + ":EAGAIN(non-blocking)"]++; ++W.count[call]; return &W.forced; }
  int n = ++W.count[call];
  for (auto &f : W.plan) if (f.call == call && n >= f.k && n < f.k + f.burst && !(f.kind == 2 && W.gate_eagain && !W.eagain_ok)) { W.faults_consumed++; W.consumed_by[string(call) + (f.kind == 1 ? ":EINTR" : f.kind == 2 ? ":EAGAIN" : ":SHORT")]++; return &f; }
  return nullptr;
}
#define ENTER W.inside_blocking++
#define LEAVE W.inside_blocking--
extern "C" {
ssize_t vn_send(int fd, const void *b, size_t n, int fl) { const Fault *f = consume("send"); if (f && f->kind == 1) { errno = EINTR; return -1; } if (f && f->kind == 2) { errno = EAGAIN; return -1; } if (f && f->kind == 3 && n > 1) n = (size_t)std::max(1, std::min<int>((int)n - 1, f->arg)); ENTER; ssize_t r = send(fd, b, n, fl); int e = errno; LEAVE; errno = e; return r; }
static bool is_dgram(int fd) { int t = 0; socklen_t l = sizeof t; return getsockopt(fd, SOL_SOCKET, SO_TYPE, &t, &l) == 0 && t == SOCK_DGRAM; }
ssize_t vn_recv(int fd, void *b, size_t n, int fl) { const Fault *f = consume("recv"); if (f && f->kind == 1) { errno = EINTR; return -1; } if (f && f->kind == 2) { errno = EAGAIN; return -1; } if (f && f->kind == 3 && n > 1 && !is_dgram(fd)) n = (size_t)std::max(1, std::min<int>((int)n - 1, f->arg)); /* a short read exists on stream sockets only: a datagram is cut by the caller's length, never by the kernel's mood */ ENTER; ssize_t r = recv(fd, b, n, fl); int e = errno; LEAVE; errno = e; return r; }
ssize_t vn_sendto(int fd, const void *b, size_t n, int fl, const struct sockaddr *a, socklen_t al) { const Fault *f = consume("sendto"); if (f && f->kind == 1) { errno = EINTR; return -1; } if (f && f->kind == 2) { errno = EAGAIN; return -1; } ENTER; ssize_t r = sendto(fd, b, n, fl, a, al); int e = errno; LEAVE; errno = e; return r; }
ssize_t vn_recvfrom(int fd, void *b, size_t n, int fl, struct sockaddr *a, socklen_t *al) { const Fault *f = consume("recvfrom"); if (f && f->kind == 1) { errno = EINTR; return -1; } if (f && f->kind == 2) { errno = EAGAIN; return -1; } ENTER; ssize_t r = recvfrom(fd, b, n, fl, a, al); int e = errno; LEAVE; errno = e; return r; }
int vn_poll(struct pollfd *p, nfds_t n, int t) {
  W.polls++;
  const Fault *f = consume("poll");
  if (f && f->kind == 1) {
    // the interruption arrives f->arg milliseconds into the wait (0 = at once) unless the awaited event comes first or the timeout is shorter
    int lead = f->arg > 0 && f->arg < 1000 ? f->arg : 0;
    if (lead > 0) { if (t >= 0 && t <= lead) { ENTER; int r0 = poll(p, n, t); int e0 = errno; LEAVE; errno = e0; return r0; } ENTER; int r1 = poll(p, n, lead); int e1 = errno; LEAVE; if (r1 != 0) { errno = e1; return r1; } }
    errno = EINTR; return -1;
  }
  ENTER; int r = poll(p, n, t); int e = errno; LEAVE; errno = e; return r;
}
int vn_connect(int fd, const struct sockaddr *a, socklen_t l) { const Fault *f = consume("connect"); if (f && f->kind == 1) { errno = EINTR; return -1; } ENTER; int r = connect(fd, a, l); int e = errno; LEAVE; errno = e; return r; }
int vn_accept(int fd, struct sockaddr *a, socklen_t *l) { const Fault *f = consume("accept"); if (f && f->kind == 1) { errno = EINTR; return -1; } if (f && f->kind == 2) { errno = EAGAIN; return -1; } ENTER; int r = accept(fd, a, l); int e = errno; LEAVE; ledger_open(r); errno = e; return r; }
int vn_socket(int d, int t, int p) { consume("socket"); int r = socket(d, t, p); int e = errno; ledger_open(r); errno = e; return r; }
int vn_shutdown(int fd, int how) { consume("shutdown"); return shutdown(fd, how); }
int vn_setsockopt(int fd, int l, int o, const void *v, socklen_t vl) { consume("setsockopt"); return setsockopt(fd, l, o, v, vl); }
int vn_getsockopt(int fd, int l, int o, void *v, socklen_t *vl) { consume("getsockopt"); return getsockopt(fd, l, o, v, vl); }
int vn_getsockname(int fd, struct sockaddr *a, socklen_t *l) { consume("getsockname"); return getsockname(fd, a, l); }
int vn_getpeername(int fd, struct sockaddr *a, socklen_t *l) { consume("getpeername"); return getpeername(fd, a, l); }
int vn_bind(int fd, const struct sockaddr *a, socklen_t l) { consume("bind"); return bind(fd, a, l); }
int vn_listen(int fd, int b) { consume("listen"); return listen(fd, b); }
int vn_fcntl(int fd, int cmd, ...) { va_list ap; va_start(ap, cmd); long arg = va_arg(ap, long); va_end(ap); consume("fcntl"); return fcntl(fd, cmd, arg); }
// an interrupted close() on Linux has released the descriptor all the same: the planned fault closes for real and then reports EINTR
int vn_close(int fd) { const Fault *f = consume("close"); ledger_close(fd); int r = close(fd); if (f && f->kind == 1) { errno = EINTR; return -1; } return r; }
// sleeps: a planned interruption performs a real, shortened sleep and then reports EINTR exactly as POSIX specifies for the call
int vn_clock_nanosleep(clockid_t c, int fl, const struct timespec *req, struct timespec *rem) {
  const Fault *f = consume("clock_nanosleep");
  if (f && f->kind == 1) {
    long long ns = (long long)req->tv_sec * 1000000000LL + req->tv_nsec; long long part = ns / 3;
    struct timespec p = {(time_t)(part / 1000000000LL), (long)(part % 1000000000LL)};
    struct timespec t0, t1; clock_gettime(CLOCK_MONOTONIC, &t0);
    clock_nanosleep(c, fl, &p, NULL);   // may itself be cut short by a real signal: the remaining time is computed from the clock
    clock_gettime(CLOCK_MONOTONIC, &t1);
    long long slept = (long long)(t1.tv_sec - t0.tv_sec) * 1000000000LL + (t1.tv_nsec - t0.tv_nsec);
    long long left = ns - std::min(slept, part); if (left < 0) left = 0; if (rem) { rem->tv_sec = (time_t)(left / 1000000000LL); rem->tv_nsec = (long)(left % 1000000000LL); }
    return EINTR; // return value, errno untouched
  }
  ENTER; int r = clock_nanosleep(c, fl, req, rem); LEAVE; return r;
}
int vn_nanosleep(const struct timespec *req, struct timespec *rem) {
  const Fault *f = consume("nanosleep");
  if (f && f->kind == 1) {
    long long ns = (long long)req->tv_sec * 1000000000LL + req->tv_nsec; long long part = ns / 3;
    struct timespec p = {(time_t)(part / 1000000000LL), (long)(part % 1000000000LL)};
    struct timespec t0, t1; clock_gettime(CLOCK_MONOTONIC, &t0);
    nanosleep(&p, NULL);
    clock_gettime(CLOCK_MONOTONIC, &t1);
    long long slept = (long long)(t1.tv_sec - t0.tv_sec) * 1000000000LL + (t1.tv_nsec - t0.tv_nsec);
    long long left = ns - std::min(slept, part); if (left < 0) left = 0; if (rem) { rem->tv_sec = (time_t)(left / 1000000000LL); rem->tv_nsec = (long)(left % 1000000000LL); }
    errno = EINTR; return -1;
  }
  ENTER; int r = nanosleep(req, rem); int e = errno; LEAVE; errno = e; return r;
}
int vn_sem_wait(sem_t *s) { const Fault *f = consume("sem_wait"); if (f && f->kind == 1) { errno = EINTR; return -1; } ENTER; int r = sem_wait(s); int e = errno; LEAVE; errno = e; return r; }
sem_t *vn_sem_open(const char *name, int oflag, ...) {
  mode_t mode = 0; unsigned value = 0;
  if (oflag & O_CREAT) { va_list ap; va_start(ap, oflag); mode = (mode_t)va_arg(ap, int); value = va_arg(ap, unsigned); va_end(ap); }
  const Fault *f = consume("sem_open"); if (f && f->kind == 1) { errno = EINTR; return SEM_FAILED; }
  return (oflag & O_CREAT) ? sem_open(name, oflag, mode, value) : sem_open(name, oflag);
}
int vn_shm_open(const char *n, int fl, mode_t m) { const Fault *f = consume("shm_open"); if (f && f->kind == 1) { errno = EINTR; return -1; } int r = shm_open(n, fl, m); int e = errno; ledger_open(r); errno = e; return r; }
}

namespace {

void arm(const vector<Fault> &plan) { W.plan = plan; W.count.clear(); W.armed = true; W.owner = pthread_self(); W.faults_consumed = 0; }
void disarm() { W.armed = false; W.plan.clear(); W.force_eagain = nullptr; W.gate_eagain = false; W.eagain_ok = false; }

inline unsigned char pat(unsigned stream, size_t i) { return (unsigned char)(((i * 2654435761u) >> 13) ^ (i >> 3) ^ (stream * 97u)); }
double now_ms() { struct timespec ts; clock_gettime(CLOCK_MONOTONIC, &ts); return ts.tv_sec * 1000.0 + ts.tv_nsec / 1e6; }
// an internal retry condition reported to the caller: the would-block code, or a native EINTR/EAGAIN behind any code other than timed-out
// (a genuine time-out legitimately carries the EAGAIN of the attempt that made the call wait)
bool would_block_code(PError *e) { return e && (p_error_get_code(e) == P_ERROR_IO_WOULD_BLOCK || (p_error_get_code(e) != P_ERROR_IO_TIMED_OUT && (p_error_get_native_code(e) == EINTR || p_error_get_native_code(e) == EAGAIN))); }
// The harness's own TCP endpoints close with a reset (SO_LINGER 0): a reset leaves no TIME_WAIT entry behind on either side, so that
// hundreds of thousands of short connections do not exhaust the ephemeral port range (which once made bind(0) fail and connects be
// refused on the unchanged tree: an environment failure reported as a violation).
void no_time_wait(int fd) { if (fd < 0) return; struct linger lg = {1, 0}; setsockopt(fd, SOL_SOCKET, SO_LINGER, &lg, sizeof lg); }
// the environment cannot currently give out a local port: nothing about the library can be decided from a failing bind / connect then
bool env_ports_exhausted() {
  int s = socket(AF_INET, SOCK_STREAM, 0); if (s < 0) return true;
  sockaddr_in a; memset(&a, 0, sizeof a); a.sin_family = AF_INET; a.sin_addr.s_addr = htonl(INADDR_LOOPBACK);
  bool bad = bind(s, (sockaddr *)&a, sizeof a) != 0; close(s);
  if (bad) vl::stats().count("environment_out_of_local_ports");
  return bad;
}
string errstr(PError *e) { if (!e) return "(no error object)"; return "code " + std::to_string(p_error_get_code(e)) + " native " + std::to_string(p_error_get_native_code(e)) + " '" + (p_error_get_message(e) ? p_error_get_message(e) : "") + "'"; }

struct Step { char kind; long a = 0, b = 0; string s; };
struct Case {
  string prop = "C09";
  int fam = 4; string kind = "tcp_client"; int blocking = 1; int sndbuf = 0; int peer_mode = 0;
  vector<Fault> plan;
  vector<Step> steps;
  string scen; long p1 = 0, p2 = 0, p3 = 0;   // C19 scenario
  vector<string> cmds;                        // C10 commands (free text lines)
};
string fault_text(const Fault &f) { return "F " + f.call + " " + std::to_string(f.k) + " " + std::to_string(f.kind) + " " + std::to_string(f.arg) + " " + std::to_string(f.burst); }
string to_text(const Case &c) {
  std::ostringstream os;
  os << "net " << c.prop << "\n";
  if (c.prop == "C09") { os << "cfg " << c.fam << ' ' << c.kind << ' ' << c.blocking << ' ' << c.sndbuf << ' ' << c.peer_mode << "\n"; }
  if (c.prop == "C19") os << "scen " << c.scen << ' ' << c.p1 << ' ' << c.p2 << ' ' << c.p3 << "\n";
  for (auto &f : c.plan) os << fault_text(f) << "\n";
  for (auto &s : c.steps) os << s.kind << ' ' << s.a << ' ' << s.b << "\n";
  for (auto &l : c.cmds) os << "c " << l << "\n";
  return os.str();
}
bool from_text(const string &t, Case &c) {
  for (auto &l : vl::split_lines(t)) {
    auto w = vl::split_ws(l); if (w.empty() || w[0][0] == '#') continue;
    if (w[0] == "net" && w.size() > 1) c.prop = w[1];
    else if (w[0] == "cfg" && w.size() >= 6) { c.fam = atoi(w[1].c_str()); c.kind = w[2]; c.blocking = atoi(w[3].c_str()); c.sndbuf = atoi(w[4].c_str()); c.peer_mode = atoi(w[5].c_str()); }
    else if (w[0] == "scen" && w.size() >= 5) { c.scen = w[1]; c.p1 = atol(w[2].c_str()); c.p2 = atol(w[3].c_str()); c.p3 = atol(w[4].c_str()); }
    else if (w[0] == "F" && w.size() >= 6) { Fault f; f.call = w[1]; f.k = atoi(w[2].c_str()); f.kind = atoi(w[3].c_str()); f.arg = atoi(w[4].c_str()); f.burst = atoi(w[5].c_str()); c.plan.push_back(f); }
    else if (w[0] == "c") { c.cmds.push_back(l.substr(l.find("c ") + 2)); }
    else if (w[0].size() == 1 && w.size() >= 3) { Step s; s.kind = w[0][0]; s.a = atol(w[1].c_str()); s.b = atol(w[2].c_str()); c.steps.push_back(s); }
  }
  return true;
}
void showValue(const Case &c, std::ostream &os) { os << to_text(c); }
std::ostream &operator<<(std::ostream &os, const Step &s) { return os << s.kind << ' ' << s.a << ' ' << s.b; }
std::ostream &operator<<(std::ostream &os, const Fault &f) { return os << fault_text(f); }

struct Outcome { string verdict, klass; bool nontrivial = false; uint64_t fp = 0; bool inconclusive = false; };

// Watchdog for calls that must return at once (non-blocking mode, calls on a closed socket): if the only harness thread sits
// in poll()/ppoll() for 5 s while such a call is in progress, the call is waiting although it must not.
std::atomic<const char *> g_must_not_block{nullptr};
std::atomic<long> g_mnb_seq{0};
pid_t g_main_tid = 0; string g_wd_sub, g_wd_text, g_wd_prop;
string main_syscall() { char p[64]; snprintf(p, sizeof p, "/proc/self/task/%d/syscall", (int)g_main_tid); FILE *f = fopen(p, "r"); if (!f) return ""; char b[256] = ""; if (!fgets(b, sizeof b, f)) b[0] = 0; fclose(f); return b; }
void watchdog() {
  long last = -1; int stuck = 0;
  for (;;) {
    usleep(500000);
    const char *what = g_must_not_block.load(); long seq = g_mnb_seq.load();
    if (!what) { stuck = 0; last = -1; continue; }
    if (seq != last) { last = seq; stuck = 0; continue; }
    if (++stuck < 10) continue;
    string sc = main_syscall();
    static const char *parked[] = {"7 ", "271 ", "45 ", "44 ", "43 ", "288 ", "42 ", "47 ", "46 "};   // poll ppoll recvfrom sendto accept accept4 connect recvmsg sendmsg
    bool in_wait = false; for (const char *pfx : parked) if (sc.rfind(pfx, 0) == 0) in_wait = true;
    if (in_wait) {
      string msg = g_wd_prop + ":nonblocking-waits: " + what + " did not return: the calling thread has been parked in a waiting system call (number " + sc.substr(0, sc.find(' ')) + ") for 5 s although the call must return at once";
      vl::report_failure(g_wd_sub + "_hang", g_wd_text, msg, "nonblocking-waits");
      vl::stats().flush();
      printf("REPLAY-FAIL %s\n", msg.c_str()); fflush(stdout);
      _exit(1);
    }
    stuck = 0;
  }
}
struct MustNotBlock { MustNotBlock(const char *w) { g_mnb_seq++; g_must_not_block = w; } ~MustNotBlock() { g_must_not_block = nullptr; g_mnb_seq++; } };

bool g_have_v6 = false;
socklen_t loop_addr(int fam, int port, sockaddr_storage &ss) {
  memset(&ss, 0, sizeof ss);
  if (fam == 6) { sockaddr_in6 *a = (sockaddr_in6 *)&ss; a->sin6_family = AF_INET6; a->sin6_addr = in6addr_loopback; a->sin6_port = htons((uint16_t)port); return sizeof *a; }
  sockaddr_in *a = (sockaddr_in *)&ss; a->sin_family = AF_INET; a->sin_addr.s_addr = htonl(INADDR_LOOPBACK); a->sin_port = htons((uint16_t)port); return sizeof *a;
}
int port_of(int fd) { sockaddr_storage ss; socklen_t l = sizeof ss; getsockname(fd, (sockaddr *)&ss, &l); return ntohs(ss.ss_family == AF_INET6 ? ((sockaddr_in6 *)&ss)->sin6_port : ((sockaddr_in *)&ss)->sin_port); }

// ---- C09: raw peer thread -------------------------------------------------------------------------------
struct Peer {
  int fd = -1; int mode = 0;
  std::mutex mx; string rx; std::deque<long> to_send; size_t out_pos = 0; bool stop = false, eof = false, close_req = false, closed = false, pause = false, paused = false;
  std::thread th;
  void run() {
    for (;;) {
      long want = -1; bool do_close = false;
      { std::unique_lock<std::mutex> g(mx); if (stop) break; if (pause) { paused = true; g.unlock(); usleep(500); continue; } paused = false; if (!to_send.empty()) { want = to_send.front(); to_send.pop_front(); } if (close_req && to_send.empty() && want < 0) do_close = true; }
      if (want > 0) {
        string buf((size_t)want, 0); for (long i = 0; i < want; i++) buf[(size_t)i] = (char)pat(2, out_pos + (size_t)i);
        size_t off = 0; while (off < buf.size()) { size_t chunk = mode == 2 ? buf.size() - off : std::min<size_t>(buf.size() - off, mode == 1 ? 700 : 8192); ssize_t n = ::send(fd, buf.data() + off, chunk, MSG_NOSIGNAL); if (n <= 0) { if (errno == EAGAIN || errno == EINTR) { { std::lock_guard<std::mutex> g(mx); if (stop) break; } usleep(200); continue; } break; } off += (size_t)n; if (mode == 1) usleep(150); }
        std::lock_guard<std::mutex> g(mx); out_pos += (size_t)want;
      }
      if (do_close) { ::close(fd); std::lock_guard<std::mutex> g(mx); closed = true; break; }
      // read whatever is available
      struct pollfd p = {fd, POLLIN, 0};
      if (::poll(&p, 1, want > 0 ? 0 : 2) > 0) {
        char tmp[65536]; ssize_t n = ::recv(fd, tmp, mode == 1 ? 997 : sizeof tmp, MSG_DONTWAIT);
        if (n > 0) { std::lock_guard<std::mutex> g(mx); rx.append(tmp, (size_t)n); }
        else if (n == 0) { std::lock_guard<std::mutex> g(mx); eof = true; }
        if (mode == 1) usleep(100);
      }
    }
  }
};

Outcome run_c09(const Case &c) {
  Outcome out;
  auto fail = [&](const string &k, const string &m) { if (out.verdict.empty()) { out.verdict = m; out.klass = k; } };
  int fam = (c.fam == 6 && g_have_v6) ? 6 : 4;
  PSocketFamily pf = fam == 6 ? P_SOCKET_FAMILY_INET6 : P_SOCKET_FAMILY_INET;
  bool short_seen = false, fault_in_blocking = false; int receives = 0;
  if (c.kind == "udp") {
    PSocket *ls = p_socket_new(pf, P_SOCKET_TYPE_DATAGRAM, P_SOCKET_PROTOCOL_UDP, NULL);
    PSocketAddress *la = p_socket_address_new(fam == 6 ? "::1" : "127.0.0.1", 0);
    if (!ls || !la || !p_socket_bind(ls, la, TRUE, NULL)) { fail("setup", "udp socket setup failed"); return out; }
    p_socket_address_free(la);
    PSocketAddress *loc = p_socket_get_local_address(ls, NULL); int lport = p_socket_address_get_port(loc); p_socket_address_free(loc);
    int raw = socket(fam == 6 ? AF_INET6 : AF_INET, SOCK_DGRAM, 0); sockaddr_storage ra; socklen_t ral = loop_addr(fam, 0, ra); bind(raw, (sockaddr *)&ra, ral); int rport = port_of(raw);
    sockaddr_storage lsa; socklen_t lsl = loop_addr(fam, lport, lsa);
    PSocketAddress *peer_addr = p_socket_address_new(fam == 6 ? "::1" : "127.0.0.1", (puint16)rport);
    p_socket_set_blocking(ls, c.blocking ? TRUE : FALSE);
    p_socket_set_timeout(ls, 1000);
    std::deque<std::pair<int, size_t>> sent; int dg = 0; // (datagram id, length) sent by the peer, not yet received
    // loss on loopback only happens when the receive queue overflows: a datagram queued while the outstanding ones (with a generous
    // per-datagram overhead) stay far below the default receive buffer cannot be lost, so skipping it is a violation, not tolerance
    std::set<int> cannot_be_lost; auto outstanding = [&]() { size_t t = 0; for (auto &d : sent) t += d.second + 4096; return t; };
    arm(c.plan);
    for (auto &s : c.steps) {
      if (!out.verdict.empty()) break;
      if (s.kind == 'D') { size_t n = (size_t)std::max<long>(0, std::min<long>(s.a, 65507)); if (n == 0) vl::stats().klass("udp_empty_datagram"); /* an empty datagram is a datagram */ string b(n, 0); for (size_t i = 0; i < n; i++) b[i] = (char)pat(100 + (unsigned)dg, i); if (sendto(raw, b.data(), n, 0, (sockaddr *)&lsa, lsl) == (ssize_t)n) { if (outstanding() + n + 4096 < 60000) cannot_be_lost.insert(dg); sent.push_back({dg, n}); } dg++; usleep(300); }
      else if (s.kind == 'R') {
        size_t bl = (size_t)std::max<long>(1, std::min<long>(s.a, 70000));
        if (sent.empty() && c.blocking) continue;  // a blocking receive with nothing in flight would only time out (C10 territory)
        char *buf = (char *)malloc(bl); PSocketAddress *from = NULL; PError *err = NULL;
        long faults0 = W.faults_consumed;
        // every other receive goes through p_socket_receive: on a datagram socket it is the same contract without the sender address
        bool plain_receive = receives % 2 == 1;
        if (plain_receive) vl::stats().klass(bl < (sent.empty() ? 0 : sent.front().second) ? "udp_plain_receive_truncating" : "udp_plain_receive");
        pssize n = plain_receive ? p_socket_receive(ls, buf, bl, &err) : p_socket_receive_from(ls, &from, buf, bl, &err);
        if (W.faults_consumed > faults0 && c.blocking) fault_in_blocking = true;
        receives++;
        if (n < 0) {
          if (c.blocking && would_block_code(err)) fail("blocking-reports-retry", "blocking receive_from reported an internal would-block / interrupted condition: " + errstr(err));
          else if (!c.blocking && err && p_error_get_code(err) == P_ERROR_IO_WOULD_BLOCK) { /* fine */ }
          else if (c.blocking && err && p_error_get_code(err) == P_ERROR_IO_TIMED_OUT) {
            // loopback delivery is synchronous: a datagram sent before this call sits in the queue already
            for (auto &d : sent) if (cannot_be_lost.count(d.first)) { fail("udp-loss", "receive_from timed out although datagram #" + std::to_string(d.first) + " (" + std::to_string(d.second) + " bytes) had been queued on an almost empty loopback socket before the call"); break; }
            vl::stats().count("udp_datagrams_lost_or_late"); sent.clear(); }
          else if (!sent.empty()) fail("udp-receive", "receive_from failed although a datagram is in flight: " + errstr(err));
        } else {
          // match the received datagram with the oldest outstanding one (loss of older datagrams is tolerated and counted)
          bool matched = false;
          if ((size_t)n > bl) fail("udp-length", string(plain_receive ? "p_socket_receive" : "p_socket_receive_from") + " reported " + std::to_string(n) + " received bytes for a buffer of " + std::to_string(bl) + " (a datagram is cut to the receive buffer length)");
          while (!sent.empty() && out.verdict.empty()) {
            auto d = sent.front(); sent.pop_front();
            size_t want = std::min(d.second, bl);
            if ((size_t)n == want) { bool same = true; for (size_t i = 0; i < want; i++) if ((unsigned char)buf[i] != pat(100 + (unsigned)d.first, i)) { same = false; break; } if (same) { matched = true; break; } }
            if (cannot_be_lost.count(d.first)) { fail("udp-loss", "datagram #" + std::to_string(d.first) + " (" + std::to_string(d.second) + " bytes) was queued on an almost empty loopback socket but was never delivered: a later datagram was returned in its place"); break; }
            vl::stats().count("udp_datagrams_skipped");
          }
          if (!out.verdict.empty()) { if (from) p_socket_address_free(from); if (err) p_error_free(err); free(buf); break; }
          if (!matched) fail("udp-datagram", string(plain_receive ? "p_socket_receive" : "p_socket_receive_from") + " returned " + std::to_string(n) + " bytes: that is not any sent datagram cut to the buffer length " + std::to_string(bl));
          if (plain_receive) { /* no sender address in this call */ }
          else if (!from) fail("udp-sender", "receive_from did not report the sender address");
          else { if (p_socket_address_get_port(from) != rport) fail("udp-sender", "receive_from reported sender port " + std::to_string(p_socket_address_get_port(from)) + ", the sender is bound to " + std::to_string(rport)); pchar *t = p_socket_address_get_address(from); if (!t || strcmp(t, fam == 6 ? "::1" : "127.0.0.1")) fail("udp-sender", "receive_from reported a wrong sender address"); p_free(t); }
        }
        if (from) p_socket_address_free(from); if (err) p_error_free(err); free(buf);
      } else if (s.kind == 'S') {
        size_t n = (size_t)std::max<long>(0, std::min<long>(s.a, 65507)); string b(n, 0); for (size_t i = 0; i < n; i++) b[i] = (char)pat(7, i + (size_t)s.b);
        PError *err = NULL; long faults0 = W.faults_consumed;
        pssize r = p_socket_send_to(ls, peer_addr, n ? b.data() : "", n, &err);
        if (W.faults_consumed > faults0 && c.blocking) fault_in_blocking = true;
        if (r < 0) { if (c.blocking && would_block_code(err)) fail("blocking-reports-retry", "blocking send_to reported an internal would-block / interrupted condition: " + errstr(err)); }
        else {
          if ((size_t)r != n) fail("udp-send", "send_to returned " + std::to_string(r) + " for a datagram of " + std::to_string(n));
          string rb(70000, 0); struct pollfd p = {raw, POLLIN, 0};
          if (poll(&p, 1, 500) > 0) { ssize_t g = recv(raw, &rb[0], rb.size(), 0); if (g != (ssize_t)n || memcmp(rb.data(), b.data(), n)) fail("udp-send", "the datagram that arrived differs from the one send_to reported as sent"); }
          else vl::stats().count("udp_datagrams_lost_or_late");
        }
        if (err) p_error_free(err);
      }
    }
    disarm();
    // epilogue (no faults): a datagram from X is queued, then the socket is connected to another peer Y (the kernel keeps what is queued):
    // "receive_from reports the sender's address" - the sender is X, whoever the socket is connected to now
    if (out.verdict.empty()) {
      char drain[2048]; for (int i = 0; i < 64; i++) { struct pollfd dp = {p_socket_get_fd(ls), POLLIN, 0}; if (poll(&dp, 1, 0) <= 0) break; if (recv(p_socket_get_fd(ls), drain, sizeof drain, MSG_DONTWAIT) < 0) break; }
      int raw2 = socket(fam == 6 ? AF_INET6 : AF_INET, SOCK_DGRAM, 0); sockaddr_storage r2; socklen_t r2l = loop_addr(fam, 0, r2);
      if (raw2 >= 0 && bind(raw2, (sockaddr *)&r2, r2l) == 0 && sendto(raw, "from-x", 6, 0, (sockaddr *)&lsa, lsl) == 6) {
        struct pollfd qp = {p_socket_get_fd(ls), POLLIN, 0};
        PSocketAddress *ya = p_socket_address_new(fam == 6 ? "::1" : "127.0.0.1", (puint16)port_of(raw2));
        if (poll(&qp, 1, 1000) > 0 && ya && p_socket_connect(ls, ya, NULL)) {
          char b6[16]; PSocketAddress *from = NULL; PError *e = NULL;
          pssize n = p_socket_receive_from(ls, &from, b6, sizeof b6, &e);
          if (n == 6 && !memcmp(b6, "from-x", 6)) {
            vl::stats().klass("udp_queued_datagram_read_after_connect_to_other_peer");
            if (!from) fail("udp-sender", "receive_from on a connected datagram socket did not report the sender address");
            else if (p_socket_address_get_port(from) != rport) fail("udp-sender", "receive_from reported sender port " + std::to_string(p_socket_address_get_port(from)) + " for a datagram sent from port " + std::to_string(rport) + " (the socket had meanwhile been connected to port " + std::to_string(port_of(raw2)) + ")");
          } else vl::stats().count("udp_epilogue_datagram_not_read");
          if (from) p_socket_address_free(from); if (e) p_error_free(e);
        } else vl::stats().count("udp_epilogue_not_run");
        if (ya) p_socket_address_free(ya);
      }
      if (raw2 >= 0) close(raw2);
    }
    p_socket_address_free(peer_addr); p_socket_free(ls); close(raw);
    out.nontrivial = fault_in_blocking && receives >= 2;
    return out;
  }
  // ---- TCP ----
  bool server = c.kind == "tcp_server";
  PSocket *ls = NULL; int rawfd = -1;
  if (!server) {
    int lst = socket(fam == 6 ? AF_INET6 : AF_INET, SOCK_STREAM, 0); sockaddr_storage a; socklen_t al = loop_addr(fam, 0, a);
    if (lst < 0 || bind(lst, (sockaddr *)&a, al) != 0 || listen(lst, 4) != 0 || port_of(lst) == 0) { if (lst >= 0) close(lst); out.inconclusive = true; return out; }   // harness set-up failed: decides nothing
    int port = port_of(lst);
    ls = p_socket_new(pf, P_SOCKET_TYPE_STREAM, P_SOCKET_PROTOCOL_TCP, NULL);
    PSocketAddress *to = p_socket_address_new(fam == 6 ? "::1" : "127.0.0.1", (puint16)port);
    if (c.sndbuf) p_socket_set_buffer_size(ls, P_SOCKET_DIRECTION_SND, (psize)c.sndbuf, NULL);
    arm(c.plan);
    PError *err = NULL;
    pboolean ok = p_socket_connect(ls, to, &err);
    disarm();
    if (!ok && env_ports_exhausted()) { out.inconclusive = true; if (err) p_error_free(err); p_socket_address_free(to); p_socket_free(ls); close(lst); return out; }
    if (!ok) { fail(would_block_code(err) ? "blocking-reports-retry" : "connect", "blocking connect to a listening loopback port failed: " + errstr(err)); if (err) p_error_free(err); p_socket_address_free(to); p_socket_free(ls); close(lst); return out; }
    if (!p_socket_is_connected(ls)) fail("connect", "is_connected FALSE after successful connect");
    p_socket_address_free(to);
    // the library reported a completed connect: on loopback the connection then sits in the listener's queue already
    { struct pollfd lp = {lst, POLLIN, 0}; if (poll(&lp, 1, 5000) <= 0) { fail("connect-false-success", "p_socket_connect returned TRUE but no connection reached the listening socket within 5 s (the connect system call was never completed)"); p_socket_free(ls); close(lst); return out; } }
    rawfd = accept(lst, NULL, NULL); close(lst); no_time_wait(rawfd);
  } else {
    PSocket *srv = p_socket_new(pf, P_SOCKET_TYPE_STREAM, P_SOCKET_PROTOCOL_TCP, NULL);
    PSocketAddress *la = p_socket_address_new(fam == 6 ? "::1" : "127.0.0.1", 0);
    p_socket_bind(srv, la, TRUE, NULL); p_socket_listen(srv, NULL); p_socket_address_free(la);
    PSocketAddress *loc = p_socket_get_local_address(srv, NULL); int port = p_socket_address_get_port(loc); p_socket_address_free(loc);
    rawfd = socket(fam == 6 ? AF_INET6 : AF_INET, SOCK_STREAM, 0); no_time_wait(rawfd); sockaddr_storage a; socklen_t al = loop_addr(fam, port, a);
    // the harness's own connect may be hit by the signal storm of a C19 scenario: retry; a set-up that still fails decides nothing
    { int cr; do cr = connect(rawfd, (sockaddr *)&a, al); while (cr != 0 && errno == EINTR); if (cr != 0 && errno != EISCONN && errno != EALREADY && errno != EINPROGRESS) { out.inconclusive = true; p_socket_free(srv); close(rawfd); return out; } }
    arm(c.plan);
    PError *err = NULL;
    ls = p_socket_accept(srv, &err);
    disarm();
    if (!ls) { fail(would_block_code(err) ? "blocking-reports-retry" : "accept", "blocking accept with a pending connection failed: " + errstr(err)); if (err) p_error_free(err); p_socket_free(srv); close(rawfd); return out; }
    if (c.sndbuf) p_socket_set_buffer_size(ls, P_SOCKET_DIRECTION_SND, (psize)c.sndbuf, NULL);
    p_socket_free(srv);
  }
  if (!out.verdict.empty()) { if (ls) p_socket_free(ls); if (rawfd >= 0) close(rawfd); return out; }
  Peer peer; peer.fd = rawfd; peer.mode = c.peer_mode % 3;
  { int fl = fcntl(rawfd, F_GETFL, 0); fcntl(rawfd, F_SETFL, fl | O_NONBLOCK); }
  peer.th = std::thread([&] { peer.run(); });
  p_socket_set_blocking(ls, c.blocking ? TRUE : FALSE);
  size_t out_pos = 0, in_pos = 0, queued_in = 0; bool peer_gone = false;
  arm(c.plan);
  for (auto &s : c.steps) {
    if (!out.verdict.empty()) break;
    if (s.kind == 'P') { long n = std::max<long>(1, std::min<long>(s.a, 1 << 20)); std::lock_guard<std::mutex> g(peer.mx); peer.to_send.push_back(n); queued_in += (size_t)n; }
    else if (s.kind == 'S' && !peer_gone) {
      size_t n = (size_t)std::max<long>(1, std::min<long>(s.a, 1 << 20)); string b(n, 0); for (size_t i = 0; i < n; i++) b[i] = (char)pat(1, out_pos + i);
      PError *err = NULL; long faults0 = W.faults_consumed;
      pssize r = p_socket_send(ls, b.data(), n, &err);
      if (W.faults_consumed > faults0 && c.blocking) fault_in_blocking = true;
      if (r < 0) {
        if (c.blocking && would_block_code(err)) fail("blocking-reports-retry", "blocking send reported an internal would-block / interrupted condition to the caller: " + errstr(err));
        else if (c.blocking) fail("send", "blocking send to a live peer failed: " + errstr(err));
        else if (!(err && (p_error_get_code(err) == P_ERROR_IO_WOULD_BLOCK))) fail("send", "non-blocking send failed with something other than would-block: " + errstr(err));
      } else if (r == 0 || (size_t)r > n) fail("send", "send returned " + std::to_string(r) + " for " + std::to_string(n) + " bytes");
      else { if ((size_t)r < n) { short_seen = true; vl::stats().klass("short_send"); } out_pos += (size_t)r; }
      if (err) p_error_free(err);
    } else if (s.kind == 'R' && !peer_gone) {
      size_t bl = (size_t)std::max<long>(1, std::min<long>(s.a, 1 << 20));
      if (c.blocking && in_pos >= queued_in) continue; // nothing will ever arrive: a blocking receive would wait forever
      char *buf = (char *)malloc(bl); PError *err = NULL; long faults0 = W.faults_consumed;
      pssize r = p_socket_receive(ls, buf, bl, &err);
      if (W.faults_consumed > faults0 && c.blocking) fault_in_blocking = true;
      receives++;
      if (r < 0) {
        if (c.blocking && would_block_code(err)) fail("blocking-reports-retry", "blocking receive reported an internal would-block / interrupted condition to the caller: " + errstr(err));
        else if (c.blocking) fail("receive", "blocking receive from a live peer failed: " + errstr(err));
        else if (!(err && p_error_get_code(err) == P_ERROR_IO_WOULD_BLOCK)) fail("receive", "non-blocking receive failed with something other than would-block: " + errstr(err));
      } else if (r == 0) fail("receive", "receive returned 0 (end of stream) although the peer has not closed");
      else { for (pssize i = 0; i < r; i++) if ((unsigned char)buf[i] != pat(2, in_pos + (size_t)i)) { fail("stream-in", "received bytes differ from the peer's stream at offset " + std::to_string(in_pos + (size_t)i) + " (loss, duplication or corruption)"); break; } in_pos += (size_t)r; }
      if (err) p_error_free(err); free(buf);
    } else if (s.kind == 'T' && !peer_gone && c.blocking) {
      // stalled receiver + send timeout: the peer stops reading, the library side keeps sending large buffers with a 60 ms timeout until a
      // call times out.  Every call either reports the bytes it put into the stream or fails having put none there (checked at the end of
      // the stream: the peer must have received exactly the bytes reported as sent); a time-out is a real reason, a retry condition is not.
      { std::lock_guard<std::mutex> g(peer.mx); peer.pause = true; }
      for (int i = 0; i < 4000; i++) { { std::lock_guard<std::mutex> g(peer.mx); if (peer.paused) break; } usleep(500); }
      p_socket_set_timeout(ls, 60);
      size_t n = (size_t)std::max<long>(65536, std::min<long>(s.a * 8, 4 << 20)); bool timed_out = false;
      for (int it = 0; it < 400 && !timed_out && out.verdict.empty(); it++) {
        string b(n, 0); for (size_t i = 0; i < n; i++) b[i] = (char)pat(1, out_pos + i);
        PError *err = NULL; pssize r = p_socket_send(ls, b.data(), n, &err);
        if (r < 0) {
          if (err && p_error_get_code(err) == P_ERROR_IO_TIMED_OUT) { /* the real reason (its native code may still show the EAGAIN that led to the wait) */ }
          else if (would_block_code(err)) fail("blocking-reports-retry", "blocking send with timeout reported an internal would-block / interrupted condition: " + errstr(err));
          else fail("send", "blocking send with timeout to a stalled (live) peer failed with " + errstr(err) + " instead of timed-out");
          timed_out = true;
        } else if (r == 0 || (size_t)r > n) fail("send", "send returned " + std::to_string(r) + " for " + std::to_string(n) + " bytes");
        else { if ((size_t)r < n) { short_seen = true; vl::stats().klass("short_send"); } out_pos += (size_t)r; }
        if (err) p_error_free(err);
      }
      if (timed_out) vl::stats().klass("send_timed_out_on_stalled_peer");
      p_socket_set_timeout(ls, 0);
      { std::lock_guard<std::mutex> g(peer.mx); peer.pause = false; }
    } else if (s.kind == 'X' && !peer_gone) {
      // peer goes away; the library side keeps writing: must get an error, never a signal
      PSocketAddress *gone = p_socket_get_remote_address(ls, NULL);   // while the peer is still there
      { std::lock_guard<std::mutex> g(peer.mx); peer.close_req = true; }
      for (int i = 0; i < 400; i++) { { std::lock_guard<std::mutex> g(peer.mx); if (peer.closed) break; } usleep(1000); }
      peer_gone = true;
      p_socket_set_blocking(ls, TRUE); p_socket_set_timeout(ls, 2000);
      string b(65536, 'z'); bool got_error = false;
      // both write entry points are used on the broken connection (p_socket_send_to on a connected stream socket is legal and has its own
      // system call): an error is the only acceptable outcome, a SIGPIPE ends the harness through its handler
      for (int i = 0; i < 300 && !got_error; i++) { PError *err = NULL; pssize r = p_socket_send(ls, b.data(), b.size(), &err); if (r < 0) { got_error = true; if (would_block_code(err)) fail("blocking-reports-retry", "writing to a peer that has gone reported an internal retry condition: " + errstr(err)); } if (err) p_error_free(err); }
      // the connection is known to be broken now: the other entry point must report an error as well
      for (int i = 0; i < 3 && gone && got_error && out.verdict.empty(); i++) { PError *err = NULL; pssize r = p_socket_send_to(ls, gone, b.data(), 4096, &err); if (r >= 0) fail("peer-gone", "p_socket_send_to on a connection whose peer has gone (p_socket_send already failed) reported " + std::to_string(r) + " bytes as sent"); else if (would_block_code(err)) fail("blocking-reports-retry", "p_socket_send_to to a peer that has gone reported an internal retry condition: " + errstr(err)); if (err) p_error_free(err); }
      if (gone) p_socket_address_free(gone);
      if (!got_error) fail("peer-gone", "writing 19 MiB to a peer that has closed its socket never failed");
      vl::stats().klass("peer_gone");
    }
  }
  disarm();
  // end of stream: everything reported as sent must have arrived at the peer, and nothing else
  if (!peer_gone && out.verdict.empty()) {
    p_socket_shutdown(ls, FALSE, TRUE, NULL);
    for (int i = 0; i < 5000; i++) { { std::lock_guard<std::mutex> g(peer.mx); if (peer.eof) break; } usleep(1000); }
    std::lock_guard<std::mutex> g(peer.mx);
    if (!peer.eof) { out.inconclusive = true; }
    else if (peer.rx.size() != out_pos) fail("stream-out", "the peer received " + std::to_string(peer.rx.size()) + " bytes, the library reported " + std::to_string(out_pos) + " bytes as sent");
    else for (size_t i = 0; i < out_pos; i++) if ((unsigned char)peer.rx[i] != pat(1, i)) { fail("stream-out", "bytes that arrived at the peer differ from the bytes reported as sent at offset " + std::to_string(i)); break; }
  }
  // the other direction after the half-close: the peer sends a last block and closes while that block is still unread.  Everything the
  // peer's send calls accepted must still come out of blocking receives ("without loss"), and only then the end of the stream
  // (one case in four: the peer has to close in an orderly way here, which leaves its port in TIME_WAIT for a minute)
  if (!peer_gone && out.verdict.empty() && !out.inconclusive && vl::fnv1a(to_text(c)) % 4 == 0) {
    { struct linger lg = {0, 0}; setsockopt(rawfd, SOL_SOCKET, SO_LINGER, &lg, sizeof lg); }   // FIN, not RST: an abortive close may legitimately discard what is queued
    { std::lock_guard<std::mutex> g(peer.mx); peer.to_send.push_back(20000); peer.close_req = true; } queued_in += 20000;
    for (int i = 0; i < 3000; i++) { { std::lock_guard<std::mutex> g(peer.mx); if (peer.closed) break; } usleep(1000); }
    bool closed_now; { std::lock_guard<std::mutex> g(peer.mx); closed_now = peer.closed; }
    if (closed_now) {
      usleep(20000);   // the peer's FIN is on the loopback queue behind its data
      p_socket_set_blocking(ls, TRUE); p_socket_set_timeout(ls, 3000);
      char *buf = (char *)malloc(8192); bool eos = false;
      for (int i = 0; i < 100000 && !eos && out.verdict.empty(); i++) {
        PError *err = NULL; pssize r = p_socket_receive(ls, buf, 8192, &err);
        if (r < 0) fail("stream-loss-after-half-close", "after the library side had half-closed its write direction and the peer had sent " + std::to_string(queued_in - in_pos) + " more byte(s) and closed, a blocking receive failed (" + errstr(err) + ") with those bytes still unread: bytes the peer's send calls accepted are lost");
        else if (r == 0) eos = true;
        else { for (pssize k = 0; k < r; k++) if ((unsigned char)buf[k] != pat(2, in_pos + (size_t)k)) { fail("stream-in", "received bytes differ from the peer's stream at offset " + std::to_string(in_pos + (size_t)k) + " (loss, duplication or corruption)"); break; } in_pos += (size_t)r; }
        if (err) p_error_free(err);
      }
      free(buf);
      if (out.verdict.empty() && eos && in_pos != queued_in) fail("stream-loss-after-half-close", "end of stream after " + std::to_string(in_pos) + " bytes although the peer's send calls accepted " + std::to_string(queued_in));
      vl::stats().klass("drained_after_half_close_and_peer_close");
    }
  }
  { std::lock_guard<std::mutex> g(peer.mx); peer.stop = true; }
  peer.th.join();
  if (!peer.closed) close(rawfd);
  p_socket_free(ls);
  out.nontrivial = (short_seen || fault_in_blocking) && receives >= 2;
  if (fault_in_blocking) vl::stats().klass("fault_consumed_inside_blocking_call");
  for (auto &kv : W.consumed_by) vl::stats().klass("fault_" + kv.first, (uint64_t)kv.second);
  W.consumed_by.clear();
  vl::stats().klass(c.kind + (fam == 6 ? "_v6" : "_v4") + (c.blocking ? "_blocking" : "_nonblocking"));
  return out;
}

// ---- C10: socket state machine ----------------------------------------------------------------------------
struct MSock { PSocket *s = nullptr; bool shut_rd = false, shut_wr = false, connect_tried = false; bool closed = false, blocking = true, keepalive = false, listening = false, connected = false, bound = false, tcp = true; int timeout = 0, backlog = 5, port = 0, fam = 4; vector<int> raw_peers; };

Outcome run_c10(const Case &c) {
  Outcome out;
  auto fail = [&](const string &k, const string &m) { if (out.verdict.empty()) { out.verdict = m; out.klass = k; } };
  MSock w[3];
  vector<int> raws;
  bool io_after_close = false, timed = false;
  arm(c.plan); W.gate_eagain = true; W.eagain_ok = false;   // optional interruptions of poll(): a timed call must still not report timed-out before T; would-block faults only for blocking sockets
  auto getters = [&](int i, const char *after) {
    MSock &m = w[i]; if (!m.s) return;
    if ((p_socket_is_closed(m.s) == TRUE) != m.closed) fail("getter-closed", string("is_closed wrong after ") + after);
    if ((p_socket_get_blocking(m.s) == TRUE) != m.blocking) fail("getter-blocking", string("get_blocking wrong after ") + after);
    if (p_socket_get_timeout(m.s) != m.timeout) fail("getter-timeout", string("get_timeout=") + std::to_string(p_socket_get_timeout(m.s)) + " model " + std::to_string(m.timeout) + " after " + after);
    if (p_socket_get_listen_backlog(m.s) != m.backlog) fail("getter-backlog", string("get_listen_backlog=") + std::to_string(p_socket_get_listen_backlog(m.s)) + " model " + std::to_string(m.backlog) + " after " + after);
    if ((p_socket_is_connected(m.s) == TRUE) != m.connected) fail("getter-connected", string("is_connected=") + (p_socket_is_connected(m.s) ? "TRUE" : "FALSE") + " model " + (m.connected ? "TRUE" : "FALSE") + " after " + after);
    if (!m.closed && (p_socket_get_keepalive(m.s) == TRUE) != m.keepalive) fail("getter-keepalive", string("get_keepalive wrong after ") + after);
  };
  auto expect_not_available = [&](int i, const char *what, bool failed, PError *err, long calls_before) {
    io_after_close = true;
    if (!failed) fail("closed-io", string(what) + " on a closed socket did not fail");
    else if (!err || p_error_get_code(err) != P_ERROR_IO_NOT_AVAILABLE) fail("closed-io", string(what) + " on a closed socket failed with " + errstr(err) + " instead of a not-available error");
    if (W.calls_total != calls_before) fail("closed-io-touch", string(what) + " on a closed socket made " + std::to_string(W.calls_total - calls_before) + " system call(s) on descriptors");
    (void)i;
  };
  for (auto &line : c.cmds) {
    if (!out.verdict.empty()) break;
    auto a = vl::split_ws(line); if (a.size() < 2) continue;
    const string &cmd = a[0]; int i = atoi(a[1].c_str()) % 3; MSock &m = w[i];
    long arg = a.size() > 2 ? atol(a[2].c_str()) : 0;
    PError *err = NULL;
    if (cmd == "new") {
      if (m.s) continue;
      int fam = (arg % 2 && g_have_v6) ? 6 : 4; bool tcp = (a.size() > 3 ? atol(a[3].c_str()) : 0) % 3 != 0;
      m = MSock(); m.fam = fam; m.tcp = tcp;
      m.s = p_socket_new(fam == 6 ? P_SOCKET_FAMILY_INET6 : P_SOCKET_FAMILY_INET, tcp ? P_SOCKET_TYPE_STREAM : P_SOCKET_TYPE_DATAGRAM, tcp ? P_SOCKET_PROTOCOL_TCP : P_SOCKET_PROTOCOL_UDP, &err);
      if (!m.s) { fail("new", "p_socket_new failed: " + errstr(err)); break; }
      int fl = fcntl(p_socket_get_fd(m.s), F_GETFD); if (!(fl & FD_CLOEXEC)) fail("cloexec", "descriptor of a new socket lacks close-on-exec");
      getters(i, "new");
    } else if (!m.s) { continue; }
    else if (cmd == "bind") {
      if (m.closed) { long cb = W.calls_total; PSocketAddress *ad = p_socket_address_new(m.fam == 6 ? "::1" : "127.0.0.1", 0); pboolean r = p_socket_bind(m.s, ad, TRUE, &err); p_socket_address_free(ad); expect_not_available(i, "bind", !r, err, cb); }
      else if (!m.bound) { PSocketAddress *ad = p_socket_address_new(m.fam == 6 ? "::1" : "127.0.0.1", 0); if (p_socket_bind(m.s, ad, TRUE, &err)) { m.bound = true; PSocketAddress *l = p_socket_get_local_address(m.s, NULL); m.port = p_socket_address_get_port(l); p_socket_address_free(l); } p_socket_address_free(ad); }
    } else if (cmd == "listen") {
      if (m.closed) { long cb = W.calls_total; pboolean r = p_socket_listen(m.s, &err); expect_not_available(i, "listen", !r, err, cb); }
      else if (m.tcp && m.bound && !m.connected && !m.connect_tried) { if (p_socket_listen(m.s, &err)) m.listening = true; else fail("listen", "listen on a bound stream socket failed: " + errstr(err)); }
      else if (!m.tcp) {
        // a listen that cannot succeed (datagram socket): it fails, and the socket is NOT listening afterwards - the backlog setter keeps
        // working and the getters keep reflecting the calls made so far
        if (p_socket_listen(m.s, &err)) fail("listen", "p_socket_listen on a datagram socket succeeded");
        vl::stats().klass("listen_failed_on_datagram_socket");
      }
    } else if (cmd == "accept") {
      long cb = W.calls_total, pb = W.polls;
      if (m.closed) { PSocket *r = p_socket_accept(m.s, &err); expect_not_available(i, "accept", r == NULL, err, cb); if (r) p_socket_free(r); }
      else if (m.listening) {
        bool with_peer = arg % 2 == 1;
        if (!with_peer && m.blocking && m.timeout == 0) with_peer = true; // a blocking accept without timeout is only issued when progress is guaranteed
        if (with_peer) { int rf = socket(m.fam == 6 ? AF_INET6 : AF_INET, SOCK_STREAM, 0); no_time_wait(rf); sockaddr_storage sa; socklen_t sl = loop_addr(m.fam, m.port, sa); if (connect(rf, (sockaddr *)&sa, sl) == 0) raws.push_back(rf); else { close(rf); with_peer = false; } struct pollfd pp = {p_socket_get_fd(m.s), POLLIN, 0}; poll(&pp, 1, 3000); }
        double t0 = now_ms();
        PSocket *r;
        { std::unique_ptr<MustNotBlock> g(m.blocking ? nullptr : new MustNotBlock("non-blocking p_socket_accept")); W.eagain_ok = m.blocking; r = p_socket_accept(m.s, &err); W.eagain_ok = false; }
        double dt = now_ms() - t0;
        if (with_peer) {
          if (!r) fail("accept", "accept with a pending connection failed: " + errstr(err));
          else {
            int fl = fcntl(p_socket_get_fd(r), F_GETFD); if (!(fl & FD_CLOEXEC)) fail("cloexec", "descriptor of an accepted socket lacks close-on-exec");
            // the accepted socket is a socket like any other: switched to non-blocking, a receive with nothing to read returns would-block at once
            if (arg % 3 != 1) {
              p_socket_set_blocking(r, FALSE);
              if (p_socket_get_blocking(r) != FALSE) fail("getter-blocking", "get_blocking of an accepted socket is TRUE after set_blocking (FALSE)");
              char ab[16]; PError *ae = NULL; pssize ar;
              { MustNotBlock g("non-blocking p_socket_receive on an accepted socket"); ar = p_socket_receive(r, ab, sizeof ab, &ae); }
              if (ar >= 0) fail("nonblocking-code", "non-blocking receive on an accepted socket with nothing sent returned " + std::to_string(ar));
              else if (!ae || p_error_get_code(ae) != P_ERROR_IO_WOULD_BLOCK) fail("nonblocking-code", "non-blocking receive on an accepted socket with nothing sent failed with " + errstr(ae) + " instead of would-block");
              if (ae) p_error_free(ae);
              vl::stats().klass("accepted_socket_used_nonblocking");
            }
            p_socket_free(r);
          }
        } else if (r) { p_socket_free(r); /* a stale pending peer from an earlier step */ }
        else if (m.blocking && m.timeout > 0) { timed = true; if (!err || p_error_get_code(err) != P_ERROR_IO_TIMED_OUT) fail("timeout-code", "blocking accept with timeout " + std::to_string(m.timeout) + " ms and nobody connecting failed with " + errstr(err) + " instead of timed-out"); else if (dt < m.timeout - 0.5) fail("timeout-early", "accept timed out after " + std::to_string(dt) + " ms, before the timeout of " + std::to_string(m.timeout) + " ms elapsed"); }
        else if (!m.blocking) { timed = true; if (!err || p_error_get_code(err) != P_ERROR_IO_WOULD_BLOCK) fail("nonblocking-code", "non-blocking accept with nobody connecting failed with " + errstr(err) + " instead of would-block"); if (W.polls != pb) fail("nonblocking-waits", "non-blocking accept waited (poll was called)"); }
      }
    } else if (cmd == "connect") {
      long cb = W.calls_total;
      if (m.closed) { PSocketAddress *ad = p_socket_address_new("127.0.0.1", 9); pboolean r = p_socket_connect(m.s, ad, &err); p_socket_address_free(ad); expect_not_available(i, "connect", !r, err, cb); }
      else if (m.tcp && !m.connected && !m.listening && !m.connect_tried) {
        m.connect_tried = true;
        int lst = socket(m.fam == 6 ? AF_INET6 : AF_INET, SOCK_STREAM, 0); sockaddr_storage sa; socklen_t sl = loop_addr(m.fam, 0, sa);
        if (lst < 0 || bind(lst, (sockaddr *)&sa, sl) != 0 || port_of(lst) == 0) { if (lst >= 0) close(lst); out.inconclusive = true; break; }   // harness set-up failed (no local port to be had)
        int port = port_of(lst);
        bool refused = arg % 3 == 2;
        if (!refused) { if (listen(lst, 4) != 0) { close(lst); out.inconclusive = true; break; } } else { close(lst); lst = -1; }
        PSocketAddress *ad = p_socket_address_new(m.fam == 6 ? "::1" : "127.0.0.1", (puint16)port);
        pboolean r = p_socket_connect(m.s, ad, &err);
        p_socket_address_free(ad);
        if (refused) { if (r) fail("connect", "connect to a closed port succeeded"); else if (m.blocking && would_block_code(err) && p_error_get_code(err) != P_ERROR_IO_TIMED_OUT) {} }
        else if (m.blocking) { if (!r) { if (env_ports_exhausted()) { out.inconclusive = true; break; } fail("connect", "blocking connect to a listening loopback port failed: " + errstr(err)); } else m.connected = true; }
        else { if (r) m.connected = true; else if (!err || (p_error_get_code(err) != P_ERROR_IO_IN_PROGRESS && p_error_get_code(err) != P_ERROR_IO_WOULD_BLOCK)) fail("nonblocking-code", "non-blocking connect failed with " + errstr(err) + " instead of in-progress / would-block"); else { usleep(3000); if (err) { p_error_free(err); err = NULL; } if (p_socket_check_connect_result(m.s, &err)) m.connected = p_socket_is_connected(m.s); } }
        if (lst >= 0) { struct pollfd lp = {lst, POLLIN, 0}; poll(&lp, 1, m.connected ? 2000 : 50); fcntl(lst, F_SETFL, fcntl(lst, F_GETFL, 0) | O_NONBLOCK); int pf = accept4(lst, NULL, NULL, SOCK_NONBLOCK); if (pf >= 0) { no_time_wait(pf); m.raw_peers.push_back(pf); } close(lst); }
        // a failed connect leaves the connected flag as the library reports it; resynchronise from the API (is_connected is asserted in getters only for states the model knows)
        if (!refused && !m.blocking) m.connected = p_socket_is_connected(m.s);
        if (refused) m.connected = p_socket_is_connected(m.s) && false;
      }
    } else if (cmd == "recv") {
      long cb = W.calls_total, pb = W.polls; char buf[256];
      if (m.closed) { pssize r = p_socket_receive(m.s, buf, sizeof buf, &err); expect_not_available(i, "receive", r < 0, err, cb); }
      else if (m.connected && m.raw_peers.size() && m.tcp && !m.shut_rd) {
        bool with_data = arg % 2 == 1;
        if (!with_data && m.blocking && m.timeout == 0) with_data = true; // same for a blocking receive without timeout
        if (with_data) { ssize_t n = send(m.raw_peers.back(), "0123456789", 10, MSG_NOSIGNAL); (void)n; struct pollfd pp = {p_socket_get_fd(m.s), POLLIN, 0}; poll(&pp, 1, 3000); /* data is readable before the call: no timing dependence */ }
        double t0 = now_ms(); pssize r;
        { std::unique_ptr<MustNotBlock> g(m.blocking ? nullptr : new MustNotBlock("non-blocking p_socket_receive")); W.eagain_ok = m.blocking; r = p_socket_receive(m.s, buf, sizeof buf, &err); W.eagain_ok = false; }
        double dt = now_ms() - t0;
        if (with_data && r < 0 && !m.blocking && err && p_error_get_code(err) == P_ERROR_IO_WOULD_BLOCK) { // data still in flight: legitimate for a non-blocking socket; wait (raw poll) and retry once
          struct pollfd pp = {p_socket_get_fd(m.s), POLLIN, 0}; poll(&pp, 1, 2000); p_error_free(err); err = NULL; r = p_socket_receive(m.s, buf, sizeof buf, &err); }
        if (with_data) { if (r != 10 || memcmp(buf, "0123456789", 10)) fail("receive", "receive of 10 pending bytes returned " + std::to_string(r) + " " + errstr(err)); }
        else if (r >= 0) { /* leftover data */ }
        else if (m.blocking && m.timeout > 0) { timed = true; if (!err || p_error_get_code(err) != P_ERROR_IO_TIMED_OUT) fail("timeout-code", "blocking receive with timeout and nothing sent failed with " + errstr(err) + " instead of timed-out"); else if (dt < m.timeout - 0.5) fail("timeout-early", "receive timed out after " + std::to_string(dt) + " ms, before the timeout of " + std::to_string(m.timeout) + " ms elapsed"); }
        else if (!m.blocking) { timed = true; if (!err || p_error_get_code(err) != P_ERROR_IO_WOULD_BLOCK) fail("nonblocking-code", "non-blocking receive with nothing sent failed with " + errstr(err) + " instead of would-block"); if (W.polls != pb) fail("nonblocking-waits", "non-blocking receive waited (poll was called)"); }
      }
    } else if (cmd == "send") {
      long cb = W.calls_total;
      if (m.closed) { pssize r = p_socket_send(m.s, "x", 1, &err); expect_not_available(i, "send", r < 0, err, cb); }
      else if (m.connected && m.tcp && m.raw_peers.size() && !m.shut_wr && !m.blocking && (arg & 1)) {
        // the kernel has no room (EAGAIN from send): "a non-blocking socket returns at once with a would-block error instead of waiting" -
        // one system call, would-block, nothing sent
        long cb = W.calls_total; W.force_eagain = "send";
        pssize r; { MustNotBlock g("non-blocking p_socket_send"); r = p_socket_send(m.s, "hello", 5, &err); }
        bool consumed = W.force_eagain == nullptr; W.force_eagain = nullptr;
        if (consumed) {
          vl::stats().klass("nonblocking_send_into_full_buffer");
          if (r >= 0) fail("nonblocking-waits", "non-blocking p_socket_send returned " + std::to_string(r) + " although the kernel had reported that the send buffer is full (EAGAIN): the call retried instead of returning a would-block error at once (" + std::to_string(W.calls_total - cb) + " system calls)");
          else if (!err || p_error_get_code(err) != P_ERROR_IO_WOULD_BLOCK) fail("nonblocking-code", "non-blocking send into a full buffer failed with " + errstr(err) + " instead of would-block");
          else if (W.calls_total - cb != 1) fail("nonblocking-waits", "non-blocking send into a full buffer made " + std::to_string(W.calls_total - cb) + " system calls before it reported would-block (expected one)");
          if (r > 0) { char b[16]; struct pollfd rp = {m.raw_peers.back(), POLLIN, 0}; poll(&rp, 1, 200); (void)!recv(m.raw_peers.back(), b, sizeof b, MSG_DONTWAIT); }
        }
      }
      else if (m.connected && m.tcp && m.raw_peers.size() && !m.shut_wr) { W.eagain_ok = m.blocking; pssize r = p_socket_send(m.s, "hello", 5, &err); W.eagain_ok = false; if (r != 5) fail("send", "send of 5 bytes on a connected socket returned " + std::to_string(r) + " " + errstr(err)); else { char b[16]; struct pollfd rp = {m.raw_peers.back(), POLLIN, 0}; poll(&rp, 1, 2000); ssize_t n = recv(m.raw_peers.back(), b, sizeof b, MSG_DONTWAIT); if (n != 5 || memcmp(b, "hello", 5)) fail("send", "peer did not receive the 5 bytes sent"); } }
    } else if (cmd == "shutdown") {
      long cb = W.calls_total; bool rd = arg & 1, wr = arg & 2;
      if (m.closed) { pboolean r = p_socket_shutdown(m.s, rd, wr, &err); expect_not_available(i, "shutdown", !r, err, cb); /* every flag combination, also (FALSE, FALSE): "every I/O call fails with a not-available error" */ }
      else if (m.connected && (rd || wr)) { if (p_socket_shutdown(m.s, rd, wr, &err)) { if (rd) m.shut_rd = true; if (wr) m.shut_wr = true; if (rd && wr) m.connected = false; } }
    } else if (cmd == "close") {
      long cb = W.calls_total;
      pboolean r = p_socket_close(m.s, &err);
      if (m.closed) { if (!r) fail("close-idempotent", "second close returned FALSE"); if (W.calls_total != cb) fail("close-idempotent", "second close made " + std::to_string(W.calls_total - cb) + " system call(s)"); }
      else { if (!r) fail("close", "close failed: " + errstr(err)); m.closed = true; m.connected = false; m.listening = false; if (p_socket_get_fd(m.s) != -1) fail("close", "descriptor getter is not -1 after close"); }
    } else if (cmd == "bufsize") { long cb = W.calls_total; if (m.closed) { pboolean r = p_socket_set_buffer_size(m.s, P_SOCKET_DIRECTION_RCV, 4096, &err); expect_not_available(i, "set_buffer_size", !r, err, cb); } }
    else if (cmd == "wait") { long cb = W.calls_total; if (m.closed) { pboolean r = p_socket_io_condition_wait(m.s, P_SOCKET_IO_CONDITION_POLLOUT, &err); expect_not_available(i, "io_condition_wait", !r, err, cb); } }
    else if (cmd == "sendto") { long cb = W.calls_total; if (m.closed) { PSocketAddress *ad = p_socket_address_new("127.0.0.1", 9); pssize r = p_socket_send_to(m.s, ad, "x", 1, &err); p_socket_address_free(ad); expect_not_available(i, "send_to", r < 0, err, cb); } }
    else if (cmd == "recvfrom") { long cb = W.calls_total; if (m.closed) { char b[8]; pssize r = p_socket_receive_from(m.s, NULL, b, sizeof b, &err); expect_not_available(i, "receive_from", r < 0, err, cb); } }
    // pboolean is an int: "true" arrives as 1 or as any other non-zero value (flags & MASK style), which the library normalises
    else if (cmd == "blocking") { p_socket_set_blocking(m.s, arg % 2 ? (arg % 4 == 3 ? (pboolean)(2 << (arg % 3)) : TRUE) : FALSE); m.blocking = arg % 2; }
    else if (cmd == "timeout") { static const int ts[] = {-5, 0, 1, 20, 50, 3}; int t = ts[arg % 6]; p_socket_set_timeout(m.s, t); m.timeout = t < 0 ? 0 : t; }
    else if (cmd == "keepalive") { if (!m.closed) { p_socket_set_keepalive(m.s, arg % 2 ? (arg % 4 == 3 ? (pboolean)(2 << (arg % 3)) : TRUE) : FALSE); m.keepalive = arg % 2; } }
    else if (cmd == "backlog") { int b = 1 + (int)(arg % 9); p_socket_set_listen_backlog(m.s, b); if (!m.listening) m.backlog = b; }
    else if (cmd == "free") { p_socket_free(m.s); for (int f : m.raw_peers) close(f); m = MSock(); }
    if (err) p_error_free(err);
    if (m.s && out.verdict.empty()) getters(i, cmd.c_str());
  }
  disarm();
  for (auto &m : w) { if (m.s) p_socket_free(m.s); for (int f : m.raw_peers) close(f); }
  for (int f : raws) close(f);
  out.nontrivial = io_after_close && timed;
  if (io_after_close) vl::stats().klass("io_after_close");
  if (timed) vl::stats().klass("timed_or_nonblocking_call_that_cannot_proceed");
  return out;
}

// ---- C19: transparency to interruptions -----------------------------------------------------------------------
std::atomic<long> g_signals{0}, g_signals_in_call{0};
timer_t g_storm_timer; std::atomic<int> g_storm_on{0}; std::atomic<long> g_storm_max{4000};
void storm_handler(int) {
  long n = ++g_signals; if (W.inside_blocking.load() > 0) g_signals_in_call++;
  // a storm must not starve the thread it is aimed at: stop after 4000 signals (timer_settime is async-signal-safe)
  if (n >= g_storm_max.load() && g_storm_on.load()) { struct itimerspec z; memset(&z, 0, sizeof z); timer_settime(g_storm_timer, 0, &z, NULL); }
}
struct Storm {
  timer_t t; bool on = false;
  void start(long period_us, long max_signals = 4000) {
    g_storm_max = max_signals;
    struct sigaction sa; memset(&sa, 0, sizeof sa); sa.sa_handler = storm_handler; sigemptyset(&sa.sa_mask); sa.sa_flags = 0; // no SA_RESTART
    sigaction(SIGUSR1, &sa, NULL);
    struct sigevent ev; memset(&ev, 0, sizeof ev); ev.sigev_notify = SIGEV_THREAD_ID; ev.sigev_signo = SIGUSR1; ev._sigev_un._tid = (pid_t)syscall(186 /* gettid */);
    if (timer_create(CLOCK_MONOTONIC, &ev, &t) != 0) return;
    struct itimerspec its; its.it_value.tv_sec = 0; its.it_value.tv_nsec = (period_us % 1000000) * 1000; if (its.it_value.tv_nsec == 0) its.it_value.tv_nsec = 1000; its.it_interval = its.it_value;
    g_storm_timer = t; g_storm_on = 1; timer_settime(t, 0, &its, NULL); on = true;
  }
  void stop() { if (on) { g_storm_on = 0; timer_delete(t); on = false; } }
};

Outcome run_c19(const Case &c) {
  Outcome out;
  auto fail = [&](const string &k, const string &m) { if (out.verdict.empty()) { out.verdict = m; out.klass = k; } };
  Storm storm; long storm_period = c.p2; // 0 = no storm
  g_signals = 0; g_signals_in_call = 0;
  char uq[80]; snprintf(uq, sizeof uq, "v19_%d_%lx", (int)getpid(), ({ struct timespec ts_; clock_gettime(CLOCK_MONOTONIC, &ts_); (long)(ts_.tv_sec * 1000000000L + ts_.tv_nsec); }));
  const string &sc = c.scen;
  if (sc == "sleep") {
    long ms = c.p1;
    arm(c.plan); if (storm_period) storm.start(storm_period);
    double t0 = now_ms(); pint r = p_uthread_sleep((puint32)ms); double dt = now_ms() - t0;
    storm.stop(); disarm();
    if (r != 0) fail("sleep-result", "p_uthread_sleep(" + std::to_string(ms) + ") returned " + std::to_string(r) + " after " + std::to_string(dt) + " ms while signals / interruptions were delivered");
    else if (dt < ms - 0.005) fail("sleep-short", "p_uthread_sleep(" + std::to_string(ms) + ") returned 0 after only " + std::to_string(dt) + " ms");
  } else if (sc == "sem_acquire" || sc == "shm_lock") {
    // a helper thread releases the unit after p1 ms
    string name = uq;
    PSemaphore *sem = NULL; PShm *shm = NULL;
    if (sc == "sem_acquire") { sem = p_semaphore_new(name.c_str(), 0, P_SEM_ACCESS_CREATE, NULL); if (!sem) { fail("setup", "semaphore setup failed"); return out; } }
    else { shm = p_shm_new(name.c_str(), 64, P_SHM_ACCESS_READWRITE, NULL); if (!shm || !p_shm_lock(shm, NULL)) { fail("setup", "shm setup failed"); return out; } }
    std::thread helper([&] { sigset_t ss; sigemptyset(&ss); sigaddset(&ss, SIGUSR1); pthread_sigmask(SIG_BLOCK, &ss, NULL); usleep((useconds_t)(c.p1 * 1000)); if (sem) p_semaphore_release(sem, NULL); else p_shm_unlock(shm, NULL); });
    arm(c.plan); if (storm_period) storm.start(storm_period);
    PError *err = NULL; double t0 = now_ms();
    pboolean r = sem ? p_semaphore_acquire(sem, &err) : p_shm_lock(shm, &err);
    double dt = now_ms() - t0;
    storm.stop(); disarm(); helper.join();
    if (!r) fail("acquire-result", sc + " returned FALSE while interruptions were delivered: " + errstr(err));
    else if (dt < c.p1 - 2.0) fail("acquire-early", sc + " returned TRUE after " + std::to_string(dt) + " ms although the unit was only released after " + std::to_string(c.p1) + " ms");
    else if (sem) { // exactly one unit consumed: the counter must be 0 again
      sem_t *pk = sem_open(("/" + vi::key13(name + "_p_sem_object")).c_str(), 0); int v = -1; if (pk != SEM_FAILED) { sem_getvalue(pk, &v); sem_close(pk); }
      if (v != 0) fail("acquire-units", "after the interrupted acquire the counter is " + std::to_string(v) + " (exactly one unit must have been consumed)");
    }
    if (err) p_error_free(err);
    if (sem) { p_semaphore_take_ownership(sem); p_semaphore_free(sem); } else { p_shm_unlock(shm, NULL); p_shm_take_ownership(shm); p_shm_free(shm); }
  } else if (sc == "ipc_new") {
    string name = uq;
    // a name left behind by a process that is gone (made with the platform call, value 1): CREATE mode replaces it - under interruptions too
    string stale = "/" + vi::key13(name + "t_p_sem_object");
    { sem_t *st = sem_open(stale.c_str(), O_CREAT, 0660, 1); if (st != SEM_FAILED) sem_close(st); else vl::stats().count("ipc_new_stale_name_not_made"); }
    arm(c.plan); if (storm_period) storm.start(storm_period);
    PError *e1 = NULL, *e2 = NULL, *e3 = NULL, *e0 = NULL;
    PSemaphore *t = p_semaphore_new((name + "t").c_str(), 4, P_SEM_ACCESS_CREATE, &e0);
    PSemaphore *a = p_semaphore_new((name + "s").c_str(), 2, P_SEM_ACCESS_CREATE, &e1);
    PSemaphore *b = p_semaphore_new((name + "s").c_str(), 5, P_SEM_ACCESS_OPEN, &e2);
    PShm *m = p_shm_new((name + "m").c_str(), 128, P_SHM_ACCESS_READWRITE, &e3);
    // opening what now EXISTS, under the same interruptions: the outcome must be the one an uninterrupted call has (a second handle on the
    // same 128 bytes that is not an owner), whatever size is asked for
    PError *e4 = NULL; PShm *m2 = m ? p_shm_new((name + "m").c_str(), 4096, P_SHM_ACCESS_READWRITE, &e4) : NULL;
    storm.stop(); disarm();
    if (m && !m2) fail("ipc-create", "p_shm_new on an existing segment failed under interruptions: " + errstr(e4));
    if (m && m2) {
      if (p_shm_get_size(m2) != p_shm_get_size(m) || p_shm_get_size(m) != 128) fail("ipc-open-existing", "a segment opened under interruptions reports " + std::to_string(p_shm_get_size(m2)) + " bytes, the existing segment has " + std::to_string(p_shm_get_size(m)) + " (created with 128)");
      else { volatile char *p1 = (volatile char *)p_shm_get_address(m), *p2 = (volatile char *)p_shm_get_address(m2); p1[5] = 0x5A; p1[127] = 0x3C; if (p2[5] != 0x5A || p2[127] != 0x3C) fail("ipc-open-existing", "a segment opened under interruptions does not address the existing segment's bytes"); }
      p_shm_free(m2); m2 = NULL;
      if (!vi::exists(vi::shm_file(name + "m")) || !vi::exists(vi::shm_lock_file(name + "m"))) fail("ipc-open-existing", "freeing a handle that merely opened the existing segment (under interruptions) removed the segment's names");
    }
    if (e4) p_error_free(e4);
    if (!t) fail("ipc-create", "p_semaphore_new(CREATE) on a name that already exists failed under interruptions: " + errstr(e0));
    else {
      sem_t *pk = sem_open(stale.c_str(), 0); int v = -1; if (pk != SEM_FAILED) { sem_getvalue(pk, &v); sem_close(pk); }
      if (v != 4) fail("ipc-create", "p_semaphore_new(name, 4, CREATE) on an existing name under interruptions: the name now " + (pk == SEM_FAILED ? string("does not exist") : "carries value " + std::to_string(v)));
      p_semaphore_take_ownership(t); p_semaphore_free(t);
    }
    sem_unlink(stale.c_str()); if (e0) p_error_free(e0);
    if (!a) fail("ipc-create", "p_semaphore_new(CREATE) failed under interruptions: " + errstr(e1));
    if (!b) fail("ipc-create", "p_semaphore_new(OPEN) failed under interruptions: " + errstr(e2));
    if (!m) fail("ipc-create", "p_shm_new failed under interruptions: " + errstr(e3));
    if (a && b) { if (!p_semaphore_acquire(b, NULL) || !p_semaphore_acquire(a, NULL)) fail("ipc-create", "handles obtained under interruptions are not usable"); }
    if (m && (!p_shm_lock(m, NULL) || !p_shm_unlock(m, NULL))) fail("ipc-create", "shm obtained under interruptions is not usable");
    if (b) p_semaphore_free(b); if (a) { p_semaphore_take_ownership(a); p_semaphore_free(a); } if (m) { p_shm_take_ownership(m); p_shm_free(m); }
    for (PError *e : {e1, e2, e3}) if (e) p_error_free(e);
  } else if (sc == "tcp") {
    // blocking connect, accept (peer connects after p1 ms), receive (peer sends after p1 ms), send into a slow reader
    Case cc; cc.prop = "C09"; cc.fam = 4; cc.kind = c.p3 % 2 ? "tcp_server" : "tcp_client"; cc.blocking = 1; cc.sndbuf = 4096; cc.peer_mode = 1; cc.plan = c.plan;
    cc.steps = {Step{'P', 3000, 0}, Step{'R', 1000, 0}, Step{'S', 200000, 0}, Step{'R', 5000, 0}, Step{'S', 70000, 0}, Step{'P', 100, 0}, Step{'R', 64, 0}};
    if (storm_period) storm.start(storm_period);
    Outcome o = run_c09(cc);
    storm.stop();
    if (!o.verdict.empty()) fail("socket-" + o.klass, "blocking socket scenario under interruptions: " + o.verdict);
    if (o.inconclusive) out.inconclusive = true;
  } else if (sc == "connect_stall") {
    // a blocking connect (timeout T) whose handshake cannot complete: the listener never accepts and its queue is full, so the SYN stays
    // unanswered.  The uninterrupted outcome is FALSE / timed-out, not before T; interruptions must not turn it into TRUE (no connection
    // exists - TCP_INFO still shows SYN_SENT) nor into an interrupted-call error.  If the queue happens to have room the handshake
    // completes and the case decides nothing.
    long T = 300;
    int lst = socket(AF_INET, SOCK_STREAM, 0); sockaddr_storage a; socklen_t al = loop_addr(4, 0, a);
    if (lst < 0 || bind(lst, (sockaddr *)&a, al) != 0 || listen(lst, 0) != 0) { if (lst >= 0) close(lst); out.inconclusive = true; return out; }
    int port = port_of(lst); sockaddr_storage la; socklen_t ll = loop_addr(4, port, la);
    vector<int> fill; for (int i = 0; i < 8; i++) { int f = socket(AF_INET, SOCK_STREAM | SOCK_NONBLOCK, 0); if (f < 0) break; no_time_wait(f); (void)connect(f, (sockaddr *)&la, ll); fill.push_back(f); }
    usleep(30000);
    PSocket *s = p_socket_new(P_SOCKET_FAMILY_INET, P_SOCKET_TYPE_STREAM, P_SOCKET_PROTOCOL_TCP, NULL);
    PSocketAddress *to = p_socket_address_new("127.0.0.1", (puint16)port);
    if (!s || !to) { out.inconclusive = true; } else {
      p_socket_set_timeout(s, (pint)T);
      arm(c.plan); if (storm_period) storm.start(storm_period, 12);
      PError *err = NULL; double t0 = now_ms();
      pboolean ok = p_socket_connect(s, to, &err);
      double dt = now_ms() - t0;
      storm.stop(); disarm();
      struct tcp_info ti; socklen_t tl = sizeof ti; memset(&ti, 0, sizeof ti);
      int have = getsockopt(p_socket_get_fd(s), IPPROTO_TCP, TCP_INFO, &ti, &tl);
      if (ok) {
        if (have == 0 && ti.tcpi_state == TCP_SYN_SENT) fail("connect-false-success", "blocking p_socket_connect returned TRUE after " + std::to_string(dt) + " ms while interruptions were delivered, but no connection exists: the handshake is still in progress (TCP state SYN_SENT; the listener's queue is full and it never accepts)");
        else { out.inconclusive = true; vl::stats().count("connect_stall_handshake_completed"); }
      } else if (!err || p_error_get_code(err) != P_ERROR_IO_TIMED_OUT) {
        if (would_block_code(err)) fail("socket-interrupted-error", "blocking connect with a stalled handshake failed with " + errstr(err) + " instead of timed-out");
        else { out.inconclusive = true; vl::stats().count("connect_stall_other_error"); }
      } else if (dt < T - 0.5) fail("timed-wait-early-timeout", "connect with timeout " + std::to_string(T) + " ms timed out after only " + std::to_string(dt) + " ms while interruptions were delivered");
      else vl::stats().klass("connect_stall_timed_out_as_uninterrupted");
      if (err) p_error_free(err);
    }
    if (s) { no_time_wait(p_socket_get_fd(s)); p_socket_free(s); } if (to) p_socket_address_free(to);
    for (int f : fill) close(f); close(lst);
  } else if (sc == "timed_wait") {
    // a blocking socket WITH a timeout T: (p3 even) nothing ever arrives -> must fail with timed-out, not before T;
    // (p3 odd) the datagram arrives at p1 ms < T -> must be received.  Interruptions must not change either outcome.
    long T = 250;
    PSocket *r = p_socket_new(P_SOCKET_FAMILY_INET, P_SOCKET_TYPE_DATAGRAM, P_SOCKET_PROTOCOL_UDP, NULL);
    PSocketAddress *la = p_socket_address_new("127.0.0.1", 0); p_socket_bind(r, la, TRUE, NULL); p_socket_address_free(la);
    PSocketAddress *loc = p_socket_get_local_address(r, NULL); int port = p_socket_address_get_port(loc); p_socket_address_free(loc);
    p_socket_set_timeout(r, (pint)T);
    bool late_data = c.p3 % 2 == 1; long at = std::min<long>(std::max<long>(c.p1, 20) * 3, 180);
    std::thread helper([&] { sigset_t ss; sigemptyset(&ss); sigaddset(&ss, SIGUSR1); pthread_sigmask(SIG_BLOCK, &ss, NULL); if (!late_data) return; usleep((useconds_t)(at * 1000)); int sfd = socket(AF_INET, SOCK_DGRAM, 0); sockaddr_storage sa; socklen_t sl = loop_addr(4, port, sa); sendto(sfd, "late", 4, 0, (sockaddr *)&sa, sl); close(sfd); });
    // a timed wait restarts its full timeout after every interruption (only the lower bound is specified), so the storm is finite: 12 signals
    arm(c.plan); if (storm_period) storm.start(storm_period, 12);
    char buf[16]; PError *err = NULL; double t0 = now_ms();
    pssize n = p_socket_receive(r, buf, sizeof buf, &err);
    double dt = now_ms() - t0;
    storm.stop(); disarm(); helper.join();
    if (late_data) { if (n != 4) fail(err && p_error_get_code(err) == P_ERROR_IO_TIMED_OUT ? "timed-wait-early-timeout" : "timed-wait", "receive with timeout " + std::to_string(T) + " ms returned " + std::to_string(n) + " after " + std::to_string(dt) + " ms although the datagram was sent at " + std::to_string(at) + " ms (interruptions changed the outcome): " + errstr(err)); }
    else if (n >= 0) fail("timed-wait", "receive returned data although nothing was sent");
    else if (!err || p_error_get_code(err) != P_ERROR_IO_TIMED_OUT) fail(would_block_code(err) ? "socket-interrupted-error" : "timed-wait", "timed receive with nothing sent failed with " + errstr(err) + " instead of timed-out");
    else if (dt < T - 0.5) fail("timed-wait-early-timeout", "receive with timeout " + std::to_string(T) + " ms timed out after only " + std::to_string(dt) + " ms while interruptions were delivered");
    if (err) p_error_free(err);
    p_socket_free(r);
  } else if (sc == "accept_wait") {
    PSocket *srv = p_socket_new(P_SOCKET_FAMILY_INET, P_SOCKET_TYPE_STREAM, P_SOCKET_PROTOCOL_TCP, NULL);
    PSocketAddress *la = p_socket_address_new("127.0.0.1", 0); p_socket_bind(srv, la, TRUE, NULL); p_socket_listen(srv, NULL); p_socket_address_free(la);
    PSocketAddress *loc = p_socket_get_local_address(srv, NULL); int port = p_socket_address_get_port(loc); p_socket_address_free(loc);
    int rf = -1;
    std::thread helper([&] { sigset_t ss; sigemptyset(&ss); sigaddset(&ss, SIGUSR1); pthread_sigmask(SIG_BLOCK, &ss, NULL); usleep((useconds_t)(c.p1 * 1000)); rf = socket(AF_INET, SOCK_STREAM, 0); no_time_wait(rf); sockaddr_storage sa; socklen_t sl = loop_addr(4, port, sa); connect(rf, (sockaddr *)&sa, sl); });
    arm(c.plan); if (storm_period) storm.start(storm_period);
    PError *err = NULL; PSocket *acc = p_socket_accept(srv, &err);
    storm.stop(); disarm(); helper.join();
    if (!acc) fail(would_block_code(err) ? "socket-interrupted-error" : "socket-accept", "blocking accept failed although a peer connected after " + std::to_string(c.p1) + " ms: " + errstr(err));
    else { // and a receive that waits for data sent later
      std::thread h2([&] { sigset_t ss; sigemptyset(&ss); sigaddset(&ss, SIGUSR1); pthread_sigmask(SIG_BLOCK, &ss, NULL); usleep((useconds_t)(c.p1 * 1000)); ssize_t n = send(rf, "late data", 9, MSG_NOSIGNAL); (void)n; });
      arm(c.plan); if (storm_period) storm.start(storm_period);
      char buf[32]; PError *e2 = NULL; pssize n = p_socket_receive(acc, buf, sizeof buf, &e2);
      storm.stop(); disarm(); h2.join();
      if (n != 9 || memcmp(buf, "late data", 9)) fail(would_block_code(e2) ? "socket-interrupted-error" : "socket-receive", "blocking receive returned " + std::to_string(n) + " while waiting for data sent " + std::to_string(c.p1) + " ms later: " + errstr(e2));
      if (e2) p_error_free(e2);
      p_socket_free(acc);
    }
    if (err) p_error_free(err);
    if (rf >= 0) close(rf);
    p_socket_free(srv);
  }
  out.nontrivial = g_signals_in_call.load() > 0 || W.faults_consumed > 0;
  if (g_signals_in_call.load() > 0) vl::stats().klass("signal_delivered_inside_blocking_syscall_" + sc);
  if (W.faults_consumed > 0) vl::stats().klass("planned_eintr_consumed_" + sc);
  vl::stats().count("signals_delivered", (uint64_t)g_signals.load());
  return out;
}

Outcome run_case(const Case &c) {
  { std::lock_guard<std::mutex> g(LG.mx); LG.open.clear(); LG.opened = LG.closed_ok = LG.bad_close = 0; LG.bad_fd = -1; LG.on = true; }
  Outcome o = c.prop == "C09" ? run_c09(c) : c.prop == "C10" ? run_c10(c) : run_c19(c);
  {
    std::lock_guard<std::mutex> g(LG.mx); LG.on = false;
    static const bool ledger_only = vl::env("VERIF_LEDGER_ONLY", "0") == "1";
    if (ledger_only && !o.verdict.empty()) { o.verdict.clear(); o.klass.clear(); o.inconclusive = true; }   // the other oracles are reported by the property they belong to
    if (o.verdict.empty() && !o.inconclusive) {
      if (LG.bad_close) { o.klass = "fd-ledger"; o.verdict = "the library closed descriptor " + std::to_string(LG.bad_fd) + " which it did not hold (closed twice, or never obtained by it): " + std::to_string(LG.bad_close) + " such close call(s)"; }
      else if (!LG.open.empty()) { o.klass = "fd-ledger"; o.verdict = "descriptor " + std::to_string(*LG.open.begin()) + " obtained by the library is still open after every object was freed (" + std::to_string(LG.open.size()) + " of " + std::to_string(LG.opened) + " opened)"; }
      else if (LG.opened) vl::stats().count("descriptors_opened_and_closed_exactly_once", (uint64_t)LG.opened);
    }
  }
  o.fp = vl::fnv1a(to_text(c));
  return o;
}

// ---- generators ---------------------------------------------------------------------------------------------------
rc::Gen<int> rng(int lo, int hi) { return rc::gen::resize(100, rc::gen::inRange(lo, hi)); }
rc::Gen<Fault> genFault(const vector<string> &calls, bool only_eintr) {
  using namespace rc;
  return gen::map(gen::tuple(gen::elementOf(calls), rng(1, 7), only_eintr ? gen::just(1) : gen::weightedElement<int>({{4, 1}, {3, 2}, {3, 3}}), gen::element(1, 7, 100, 1000, 4000), gen::weightedElement<int>({{5, 1}, {2, 2}, {1, 5}})),
                  [](const std::tuple<string, int, int, int, int> &t) { Fault f; f.call = std::get<0>(t); f.k = std::get<1>(t); f.kind = std::get<2>(t); f.arg = std::get<3>(t); f.burst = std::get<4>(t); if (f.call == "poll" || f.call == "connect") f.kind = 1; if ((f.call == "accept" || f.call == "sendto" || f.call == "recvfrom") && f.kind == 3) f.kind = 2; return f; });
}
rc::Gen<Case> genC09() {
  using namespace rc;
  auto size = gen::weightedOneOf<long>({{6, gen::element<long>(0, 1, 2, 1023, 1024, 4096, 65507, 70000)}, {2, gen::map(rng(1, 200000), [](int v) { return (long)v; })}, {1, gen::just(1L << 20)}});
  auto step = gen::map(gen::tuple(gen::weightedElement<char>({{10, 'S'}, {10, 'R'}, {8, 'P'}, {6, 'D'}, {1, 'T'}}), size), [](const std::tuple<char, long> &t) { Step s; s.kind = std::get<0>(t); s.a = std::get<1>(t); return s; });
  return gen::map(gen::tuple(gen::element(4, 4, 6), gen::element<string>("tcp_client", "tcp_server", "udp"), gen::weightedElement<int>({{4, 1}, {1, 0}}), gen::element(0, 0, 2048, 8192), rng(0, 3),
                             gen::resize(4, gen::container<vector<Fault>>(genFault({"send", "recv", "sendto", "recvfrom", "poll", "connect", "accept"}, false))), gen::resize(14, gen::container<vector<Step>>(step)), rng(0, 6)),
                  [](const std::tuple<int, string, int, int, int, vector<Fault>, vector<Step>, int> &t) {
                    Case c; c.prop = "C09"; c.fam = std::get<0>(t); c.kind = std::get<1>(t); c.blocking = std::get<2>(t); c.sndbuf = std::get<3>(t); c.peer_mode = std::get<4>(t); c.plan = std::get<5>(t);
                    for (auto s : std::get<6>(t)) { if (c.kind == "udp") { if (s.kind == 'P' || s.kind == 'T') s.kind = 'D'; s.a = std::min<long>(s.a, 65507); } else if (s.kind == 'D') s.kind = 'P'; c.steps.push_back(s); }
                    if (c.kind != "udp" && std::get<7>(t) == 0) { Step x; x.kind = 'X'; c.steps.push_back(x); }
                    return c; });
}
rc::Gen<Case> genC10() {
  using namespace rc;
  auto cmd = gen::map(gen::tuple(gen::weightedElement<string>({{2, "new"}, {2, "bind"}, {2, "listen"}, {9, "accept"}, {4, "connect"}, {8, "recv"}, {4, "send"}, {2, "shutdown"}, {6, "close"}, {1, "bufsize"}, {1, "wait"}, {1, "sendto"}, {1, "recvfrom"}, {5, "blocking"}, {7, "timeout"}, {2, "keepalive"}, {2, "backlog"}, {1, "free"}}), rng(0, 3), rng(0, 12), rng(0, 3)),
                      [](const std::tuple<string, int, int, int> &t) { return std::get<0>(t) + " " + std::to_string(std::get<1>(t)) + " " + std::to_string(std::get<2>(t)) + " " + std::to_string(std::get<3>(t)); });
  // model-driven prefix: give each slot a role so that most later commands find a socket in an interesting state
  return gen::map(gen::tuple(gen::container<vector<int>>(3, rng(0, 4)), gen::container<vector<int>>(3, rng(0, 2)), gen::resize(30, gen::container<vector<string>>(cmd))), [](const std::tuple<vector<int>, vector<int>, vector<string>> &t) {
    Case c; c.prop = "C10";
    for (int i = 0; i < 3; i++) {
      int role = std::get<0>(t)[(size_t)i]; string si = std::to_string(i), fam = std::to_string(std::get<1>(t)[(size_t)i]);
      if (role == 0) { c.cmds.push_back("new " + si + " " + fam + " 1"); c.cmds.push_back("bind " + si + " 0 0"); c.cmds.push_back("listen " + si + " 0 0"); }
      else if (role == 1) { c.cmds.push_back("new " + si + " " + fam + " 1"); c.cmds.push_back("connect " + si + " 0 0"); }
      else if (role == 2) { c.cmds.push_back("new " + si + " " + fam + " 0"); c.cmds.push_back("bind " + si + " 0 0"); }
    }
    for (auto &l : std::get<2>(t)) c.cmds.push_back(l);
    // every third case: interruptions arriving 0 / 5 / 15 ms into a poll() wait
    int sel = std::get<0>(t)[0] + std::get<1>(t)[1] + (int)c.cmds.size();
    if (sel % 3 == 0) { for (int k : {1, 2, 4}) { Fault f; f.call = "poll"; f.k = k + sel % 2; f.kind = 1; f.arg = (sel % 5 == 0) ? 0 : (sel % 5 < 3 ? 5 : 15); f.burst = 1 + sel % 2; c.plan.push_back(f); } }
    // every third case: the native call reports would-block although poll() announced readiness (another thread took the connection / the
    // data, a checksum failure ...); delivered only to calls on blocking sockets, where the library has to go back to waiting
    // every third case: close() interrupted by a signal (the descriptor is gone nevertheless)
    if (sel % 3 == 2) { for (int k : {1, 2, 4}) { Fault f; f.call = "close"; f.k = k; f.kind = 1; f.burst = 1; c.plan.push_back(f); } }
    if (sel % 3 == 1) { for (const char *call : {"accept", "recv", "send"}) for (int k : {1, 3}) { Fault f; f.call = call; f.k = k + sel % 2; f.kind = 2; f.burst = 1 + (sel / 3) % 2; c.plan.push_back(f); } }
    return c; });
}
rc::Gen<Case> genC19() {
  using namespace rc;
  return gen::map(gen::tuple(gen::element<string>("sleep", "sleep", "sem_acquire", "shm_lock", "ipc_new", "tcp", "accept_wait", "timed_wait", "timed_wait", "connect_stall"), gen::element<long>(1, 20, 60), gen::weightedElement<long>({{2, 0}, {1, 200}, {2, 500}, {2, 2000}, {2, 20000}, {1, 45000}}), rng(0, 4),
                             gen::resize(3, gen::container<vector<Fault>>(genFault({"clock_nanosleep", "sem_wait", "sem_open", "shm_open", "poll", "recv", "send", "connect", "accept"}, true)))),
                  [](const std::tuple<string, long, long, int, vector<Fault>> &t) { Case c; c.prop = "C19"; c.scen = std::get<0>(t); c.p1 = std::get<1>(t); c.p2 = std::get<2>(t); c.p3 = std::get<3>(t); c.plan = std::get<4>(t); return c; });
}

int g_failed = 0;
void exec(const string &sub, const Case &c, bool rc_mode) {
  string text = to_text(c);
  vl::set_current_case(sub.c_str(), text);
  g_wd_sub = sub; g_wd_text = text; g_wd_prop = c.prop;
  Outcome o = run_case(c);
  if (o.inconclusive) { vl::stats().count("inconclusive_cases"); return; }
  vl::stats().record(text, o.nontrivial, o.fp);
  if (!o.verdict.empty()) { vl::report_failure(sub + "_" + o.klass, text, (o.klass == "fd-ledger" ? vl::env("VERIF_PROP", c.prop.c_str()) : c.prop) + ":" + o.klass + ": " + o.verdict, o.klass); if (rc_mode) RC_FAIL(o.verdict); g_failed++; }
}

// fault enumeration: every single-fault plan (call x k <= 6 x fault) on fixed base transfers (C09) / every single EINTR (k, burst) per call site (C19)
void enumerate(const string &prop, long shard, long nshards) {
  long idx = 0;
  if (prop == "C09") {
    for (const char *kind : {"tcp_client", "tcp_server", "udp"})
      for (const char *call : {"send", "recv", "sendto", "recvfrom", "poll", "connect", "accept"})
        for (int k = 1; k <= 6; k++)
          for (int fk = 1; fk <= 3; fk++) {
            bool udp = string(kind) == "udp";
            if (udp && (string(call) == "send" || string(call) == "recv" || string(call) == "connect" || string(call) == "accept")) continue;
            if (!udp && (string(call) == "sendto" || string(call) == "recvfrom")) continue;
            if ((string(call) == "poll" || string(call) == "connect") && fk != 1) continue;
            if ((string(call) == "accept" || udp) && fk == 3) continue;
            if ((idx++ % nshards) != shard) continue;
            Case c; c.prop = "C09"; c.fam = 4; c.kind = kind; c.blocking = 1; c.sndbuf = 4096; c.peer_mode = k % 3;
            Fault f; f.call = call; f.k = k; f.kind = fk; f.arg = 100; f.burst = 1 + k % 3; c.plan.push_back(f);
            if (udp) c.steps = {Step{'D', 100, 0}, Step{'D', 2000, 0}, Step{'R', 4096, 0}, Step{'S', 500, 0}, Step{'R', 1000, 0}, Step{'D', 0, 0}, Step{'R', 64, 0}, Step{'D', 65507, 0}, Step{'R', 70000, 0}, Step{'S', 9000, 0}, Step{'S', 0, 0}};
            else c.steps = {Step{'P', 5000, 0}, Step{'S', 3000, 0}, Step{'R', 1024, 0}, Step{'S', 100000, 0}, Step{'R', 4096, 0}, Step{'S', 1, 0}, Step{'P', 70000, 0}, Step{'R', 70000, 0}, Step{'R', 70000, 0}};
            exec("enum", c, false);
          }
    // stalled receiver + send timeout, with and without one fault on send / poll, small and default send buffer
    for (const char *kind : {"tcp_client", "tcp_server"})
      for (int sb : {0, 4096})
        for (int fk = 0; fk <= 3; fk++) {
          if ((idx++ % nshards) != shard) continue;
          Case c; c.prop = "C09"; c.fam = 4; c.kind = kind; c.blocking = 1; c.sndbuf = sb; c.peer_mode = fk % 3;
          if (fk) { Fault f; f.call = fk == 1 ? "poll" : "send"; f.k = 2; f.kind = fk == 1 ? 1 : fk; f.arg = 1000; f.burst = 1; c.plan.push_back(f); }
          c.steps = {Step{'S', 3000, 0}, Step{'T', 1 << 19, 0}, Step{'P', 500, 0}, Step{'R', 1024, 0}, Step{'S', 70000, 0}};
          exec("enum", c, false);
        }
    vl::stats().exhaustive["C09_every_single_fault_plan_call_x_k<=6_x_fault_on_3_base_transfers"] = true;
  } else if (prop == "C19") {
    struct Site { const char *scen; const char *call; };
    static const Site sites[] = {{"sleep", "clock_nanosleep"}, {"sem_acquire", "sem_wait"}, {"shm_lock", "sem_wait"}, {"ipc_new", "sem_open"}, {"ipc_new", "shm_open"}, {"tcp", "poll"}, {"tcp", "recv"}, {"tcp", "send"}, {"tcp", "connect"}, {"tcp", "accept"}, {"accept_wait", "poll"}, {"accept_wait", "accept"}, {"accept_wait", "recv"}, {"timed_wait", "poll"}, {"timed_wait", "recv"}, {"connect_stall", "poll"}, {"connect_stall", "connect"}};
    for (auto &s : sites)
      for (int k = 1; k <= (string(s.scen) == "ipc_new" ? 9 : 5); k++)
        for (int burst : {1, 3}) {
          if ((idx++ % nshards) != shard) continue;
          Case c; c.prop = "C19"; c.scen = s.scen; c.p1 = 20; c.p2 = 0; c.p3 = k;
          // the tcp scenario runs as client for even p3 and as server for odd p3: a fault planned on connect needs the client role (the
          // library makes the call), one on accept the server role
          if (string(s.scen) == "tcp" && string(s.call) == "connect") c.p3 = 2 * k;
          if (string(s.scen) == "tcp" && string(s.call) == "accept") c.p3 = 2 * k + 1;
          Fault f; f.call = s.call; f.k = k; f.kind = 1; f.burst = burst; f.arg = (k % 2) ? 15 : 0; c.plan.push_back(f);   // poll: the interruption arrives 15 ms into the wait for odd k
          exec("enum", c, false);
          if (string(s.scen) == "timed_wait") { Case d = c; d.p3 = k + 1; exec("enum", d, false); }   // both variants: nothing arrives / late datagram
        }
    // signal storms: every site x 5 periods
    for (const char *scen : {"sleep", "sem_acquire", "shm_lock", "ipc_new", "tcp", "accept_wait", "timed_wait", "timed_wait_late", "connect_stall"})
      for (long period : {200L, 450L, 1000L, 3000L, 15000L, 40000L}) {
        if ((idx++ % nshards) != shard) continue;
        Case c; c.prop = "C19"; c.scen = scen; c.p1 = string(scen) == "sleep" ? 60 : 25; c.p2 = period; c.p3 = period % 2;
        if (string(scen) == "timed_wait_late") { c.scen = "timed_wait"; c.p3 = 1; c.p1 = 60; } else if (string(scen) == "timed_wait") c.p3 = 0;
        exec("storm", c, false);
      }
    vl::stats().exhaustive["C19_single_EINTR_at_invocation_k<=5_(burst_1|3)_of_every_blocking_call_site_(k<=9_for_sem_open_and_shm_open)"] = true;
  }
}

int run_generated() {
  string prop = vl::env("VERIF_NETX_GEN", vl::env("VERIF_PROP", "C09").c_str());   // C20's descriptor-ledger sub-check drives the C09 / C10 generators
  string sub = vl::env("VERIF_SUB", "all");
  long shard = vl::envl("VERIF_SHARD", 0), nshards = vl::envl("VERIF_NSHARDS", 1);
  if (sub == "enum") { enumerate(prop, shard, nshards); return g_failed; }
  bool ok = rc::check("socket / interruption cases", [&] { Case c = prop == "C09" ? *genC09() : prop == "C10" ? *genC10() : *genC19(); exec("rand", c, true); });
  if (!ok) g_failed++;
  return g_failed;
}
string run_replay(const string &text) {
  Case c; if (!from_text(text, c)) return "unparsable case";
  g_wd_sub = "replay"; g_wd_text = text; g_wd_prop = c.prop;
  Outcome o = run_case(c);
  if (o.inconclusive) { printf("INCONCLUSIVE\n"); return ""; }
  return o.verdict.empty() ? "" : (o.klass == "fd-ledger" ? vl::env("VERIF_PROP", c.prop.c_str()) : c.prop) + ":" + o.klass + ": " + o.verdict;
}
} // namespace

void sigpipe_cb(int) { vl::crash_dump("SIGPIPE delivered to the process (writing to a closed peer raised a signal)"); _exit(99); }
int main(int argc, char **argv) {
  signal(SIGPIPE, sigpipe_cb);    // the library is expected to neutralise SIGPIPE itself; if it does not, this fires
  p_libsys_init();
  g_main_tid = (pid_t)syscall(186);
  std::thread(watchdog).detach();
  { int s = socket(AF_INET6, SOCK_STREAM, 0); if (s >= 0) { sockaddr_in6 a; memset(&a, 0, sizeof a); a.sin6_family = AF_INET6; a.sin6_addr = in6addr_loopback; g_have_v6 = bind(s, (sockaddr *)&a, sizeof a) == 0; close(s); } }
  return vl::harness_main(argc, argv, run_generated, run_replay);
}
