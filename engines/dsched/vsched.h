// vsched.h - deterministic cooperative scheduler + model of the pthread primitives the library uses.
//
// The library objects of the dsched-* configurations have their pthread symbols redirected to the
// vs_* functions below (objcopy --redefine-syms, see redefine.syms) and patomic-*/pspinlock-* are
// compiled with -fsanitize-coverage=trace-pc, so every atomic operation / spin-loop iteration calls
// __sanitizer_cov_trace_pc().  Test threads are real pthreads, but exactly one runs at a time: a
// baton (semaphore per thread) is handed over at schedule points.  At each point the next thread is
// enabled[choice % n] where choice is the next element of the case's schedule vector (0 = keep
// running the current thread when it is enabled).  "No enabled thread while some thread has not
// finished" is an exact deadlock verdict.
#pragma once
#include <pthread.h>
#include <semaphore.h>
#include <sched.h>
#include <time.h>
#include <errno.h>
#include <cstdint>
#include <cstdio>
#include <cstdlib>
#include <cstring>
#include <string>
#include <vector>
#include <map>
#include <set>
#include <unistd.h>

namespace vs {

enum WaitKind { W_NONE, W_START, W_MUTEX, W_COND, W_RDLOCK, W_WRLOCK, W_JOIN, W_BARRIER };

struct Mutex { int owner = -1; long locks = 0; bool recursive = false; int depth = 0; };
struct Cond { std::vector<int> waiters; };
struct RWLock { int writer = -1; std::set<int> readers; };

struct Thread {
  int id = 0;
  pthread_t real;
  sem_t baton;
  bool started = false, finished = false, detached = false;
  WaitKind wait = W_NONE;
  void *wait_obj = nullptr;
  int wait_target = -1;     // join target
  bool woken = false;       // cond: signalled (or spuriously woken)
  bool spurious_woken = false;
  int in_api = 0;           // harness sets: currently inside a library call (1) / which one
  const char *api_name = "";
  int trace_run = 0;        // consecutive trace-pc points without another kind of event
  void *(*fn)(void *) = nullptr;
  void *arg = nullptr;
  int destructor_rounds = 0;
  long points = 0;
  long api_since = -1;      // step at which the current library call was entered (-1: not inside one)
};

struct Sched {
  bool active = false;
  std::vector<Thread *> threads;
  int current = -1;
  std::vector<uint8_t> schedule;
  size_t sched_pos = 0;
  long steps = 0, max_steps = 200000;
  int last_runner = -1; long last_switch_step = 0;   // who made the last step, and since when it has been the only one
  bool allow_spurious = false;
  int spurious_budget = 0;
  int fairness_k = 40;
  std::map<void *, Mutex> mutexes;
  std::map<void *, Cond> conds;
  std::map<void *, RWLock> rwlocks;
  pthread_key_t fin_key;
  bool fin_key_made = false;
  // verdict reporting
  void (*on_verdict)(const char *klass, const std::string &msg) = nullptr;
  // statistics of the executed trace
  long preemptions = 0, blocks = 0, trace_points = 0, spurious_delivered = 0, cond_waits = 0, max_cond_waiters = 0, signals_with_waiters = 0;
  std::string trace; // compact executed trace: thread ids at switch points
  std::vector<void (*)()> point_hooks;
};

inline Sched &S() { static Sched s; return s; }
inline __thread Thread *self = nullptr;

inline bool dbg() { static int d = getenv("VS_DEBUG") ? 1 : 0; return d; }
#define VSD(...) do { if (vs::dbg()) { fprintf(stderr, "[vs T%d] ", vs::self ? vs::self->id : -1); fprintf(stderr, __VA_ARGS__); fprintf(stderr, "\n"); } } while (0)
inline void verdict(const char *klass, const std::string &msg) {
  Sched &s = S();
  if (s.on_verdict) s.on_verdict(klass, msg);
  fprintf(stderr, "VERDICT %s: %s\n", klass, msg.c_str());
  _exit(42);
}

inline const char *wait_name(WaitKind k) {
  switch (k) { case W_START: return "start"; case W_MUTEX: return "mutex_lock"; case W_COND: return "cond_wait"; case W_RDLOCK: return "rwlock_rdlock"; case W_WRLOCK: return "rwlock_wrlock"; case W_JOIN: return "join"; case W_BARRIER: return "harness barrier"; default: return "running"; }
}

// can thread t make progress right now?
inline bool enabled(Thread *t, bool *needs_spurious = nullptr) {
  Sched &s = S();
  if (needs_spurious) *needs_spurious = false;
  if (t->finished) return false;
  switch (t->wait) {
  case W_NONE: case W_START: return true;
  case W_MUTEX: return s.mutexes[t->wait_obj].owner == -1;
  case W_COND:
    if (t->woken) return true;
    if (s.allow_spurious && s.spurious_budget > 0) { if (needs_spurious) *needs_spurious = true; return true; }
    return false;
  case W_RDLOCK: return s.rwlocks[t->wait_obj].writer == -1;
  case W_WRLOCK: { RWLock &l = s.rwlocks[t->wait_obj]; return l.writer == -1 && l.readers.empty(); }
  case W_JOIN: return s.threads[t->wait_target]->finished;
  case W_BARRIER: return t->woken;
  }
  return false;
}

inline std::string describe_all() {
  Sched &s = S();
  std::string d;
  for (Thread *t : s.threads) {
    char b[160];
    snprintf(b, sizeof b, "[T%d %s%s%s%s] ", t->id, t->finished ? "finished" : wait_name(t->wait), t->in_api ? " inside " : "", t->in_api ? t->api_name : "", t->wait == W_JOIN ? (" T" + std::to_string(t->wait_target)).c_str() : "");
    d += b;
  }
  return d;
}

// a condition waiter that is scheduled without having been signalled receives a spurious wake-up: it leaves the wait set
inline void deliver_spurious(Thread *t) {
  Sched &s = S();
  Cond &cd = s.conds[t->wait_obj];
  for (size_t i = 0; i < cd.waiters.size(); i++) if (cd.waiters[i] == t->id) { cd.waiters.erase(cd.waiters.begin() + (long)i); break; }
  t->woken = true; t->spurious_woken = true; s.spurious_budget--; s.spurious_delivered++;
}
inline uint8_t next_choice() {
  Sched &s = S();
  if (s.sched_pos < s.schedule.size()) return s.schedule[s.sched_pos++];
  return 0;
}

inline void run_hooks() { for (auto h : S().point_hooks) h(); }

// hand the baton to `to` and wait for ours (unless we are finished)
inline void switch_to(Thread *to, bool wait_back) {
  Sched &s = S();
  Thread *me = self;
  if (to == me) return;
  s.current = to->id;
  if (s.trace.size() < 4000) { s.trace += (char)('0' + to->id % 10); }
  sem_post(&to->baton);
  if (wait_back) { while (sem_wait(&me->baton) != 0 && errno == EINTR) {} }
}

// Central schedule point. `must_block`: the current thread cannot continue (its wait fields are set).
inline void point(bool must_block, bool is_trace = false) {
  Sched &s = S();
  Thread *me = self;
  if (!s.active || !me) return;
  s.steps++; me->points++;
  if (s.last_runner != me->id) { s.last_runner = me->id; s.last_switch_step = s.steps; }
  if (me->in_api) { if (me->api_since < 0) me->api_since = s.steps; } else me->api_since = -1;
  if (s.steps > s.max_steps) {
    // a thread that has been spinning inside ONE library call for the last 100000 steps while every other thread is finished or blocked in a
    // wait that only a running thread could end: nothing can ever change what it polls - a deadlock in the shape of a busy loop
    bool others_stuck = true;
    for (Thread *t : s.threads) if (t != me && !t->finished) {
      bool stuck = false;
      switch (t->wait) {
      case W_MUTEX: { auto it = s.mutexes.find(t->wait_obj); stuck = it != s.mutexes.end() && it->second.owner != -1; break; }
      case W_JOIN: stuck = t->wait_target >= 0 && t->wait_target < (int)s.threads.size() && !s.threads[(size_t)t->wait_target]->finished; break;
      case W_COND: stuck = !t->woken && !(s.allow_spurious && s.spurious_budget > 0); break;
      case W_RDLOCK: { auto it = s.rwlocks.find(t->wait_obj); stuck = it != s.rwlocks.end() && it->second.writer != -1; break; }
      case W_WRLOCK: { auto it = s.rwlocks.find(t->wait_obj); stuck = it != s.rwlocks.end() && (it->second.writer != -1 || !it->second.readers.empty()); break; }
      case W_BARRIER: stuck = true; break;
      default: stuck = false;   // runnable, or not started yet
      }
      if (!stuck) { others_stuck = false; break; }
    }
    long since = me->api_since > s.last_switch_step ? me->api_since : s.last_switch_step;
    if (me->in_api && me->api_since >= 0 && s.steps - since >= 100000 && others_stuck)
      verdict("deadlock", std::string("a thread has been spinning inside ") + me->api_name + " for " + std::to_string(s.steps - since) + " scheduling steps while every other thread is finished or blocked (the call never returns; nothing can change the state it polls): " + describe_all());
    verdict("inconclusive-step-bound", "step bound exceeded (possible livelock): " + describe_all());
  }
  run_hooks();
  if (is_trace) { s.trace_points++; me->trace_run++; } else me->trace_run = 0;
  // enabled set
  std::vector<Thread *> en; std::vector<bool> spur;
  for (Thread *t : s.threads) {
    if (t == me && must_block) {
      // me is blocked with wait fields set; may already be satisfiable (e.g. woken) - then it is enabled like others
    }
    bool ns = false;
    if (enabled(t, &ns)) { en.push_back(t); spur.push_back(ns); }
  }
  bool me_enabled = false;
  for (Thread *t : en) if (t == me) me_enabled = true;
  if (en.empty()) {
    bool all_done = true;
    for (Thread *t : s.threads) if (!t->finished) all_done = false;
    if (all_done) return;
    verdict("deadlock", "no thread can make progress: " + describe_all());
  }
  Thread *next = nullptr; size_t ni = 0;
  bool force_yield = is_trace && me->trace_run > s.fairness_k && en.size() > 1;
  uint8_t c = next_choice();
  if (me_enabled && !force_yield && c == 0) next = me;
  else if (force_yield) {
    // fair yield: next enabled thread after me in id order
    for (size_t i = 0; i < en.size(); i++) if (en[i]->id > me->id) { next = en[i]; ni = i; break; }
    if (!next) { next = en[0]; ni = 0; if (next == me && en.size() > 1) { next = en[1]; ni = 1; } }
    me->trace_run = 0;
  } else { ni = c % en.size(); next = en[ni]; }
  if (next == me) { for (size_t i = 0; i < en.size(); i++) if (en[i] == me) ni = i; }
  if (spur[ni] && !next->woken) deliver_spurious(next); // the choice delivers a spurious wake-up to a condition waiter
  if (next != me) {
    if (me_enabled && !must_block) s.preemptions++;
    if (must_block) s.blocks++;
    switch_to(next, true);
  }
}

inline void block_until_enabled() {
  // current thread has wait fields set; loop until its condition holds when it is scheduled
  for (;;) {
    point(true);
    if (enabled(self)) return; // we were scheduled because our wait is satisfiable (choice picked us)
  }
}

// ---- thread lifecycle -----------------------------------------------------------------------------
inline void fin_destructor(void *v) {
  Sched &s = S();
  Thread *t = (Thread *)v;
  t->destructor_rounds++;
  if (t->destructor_rounds < PTHREAD_DESTRUCTOR_ITERATIONS) { pthread_setspecific(s.fin_key, v); return; }
  // last round: every library / user TLS destructor of this thread has run
  t->finished = true;
  t->wait = W_NONE;
  // pass the baton on for good
  std::vector<Thread *> en;
  for (Thread *o : s.threads) if (o != t && enabled(o)) en.push_back(o);
  if (en.empty()) {
    bool all_done = true;
    for (Thread *o : s.threads) if (!o->finished) all_done = false;
    if (all_done) return;
    verdict("deadlock", "no thread can make progress after a thread finished: " + describe_all());
  }
  Thread *next = en[next_choice() % en.size()];
  if (next->wait == W_COND && !next->woken) deliver_spurious(next);
  s.current = next->id;
  sem_post(&next->baton);
}

inline void *trampoline(void *v) {
  Thread *t = (Thread *)v;
  self = t;
  while (sem_wait(&t->baton) != 0 && errno == EINTR) {}
  t->started = true; t->wait = W_NONE;
  pthread_setspecific(S().fin_key, t);
  void *r = t->fn(t->arg);
  return r; // glibc now runs TLS destructors; fin_destructor's last round marks the thread finished
}

inline Thread *new_thread() {
  Sched &s = S();
  Thread *t = new Thread();
  t->id = (int)s.threads.size();
  sem_init(&t->baton, 0, 0);
  s.threads.push_back(t);
  return t;
}

// called by the harness in the (forked) case process before running a program
inline void begin(const std::vector<uint8_t> &schedule, bool spurious, int spurious_budget) {
  Sched &s = S();
  if (!s.fin_key_made) { pthread_key_create(&s.fin_key, fin_destructor); s.fin_key_made = true; }
  s.schedule = schedule; s.sched_pos = 0; s.steps = 0;
  s.allow_spurious = spurious; s.spurious_budget = spurious_budget;
  for (Thread *t : s.threads) delete t;
  s.threads.clear();
  Thread *main_t = new_thread();
  main_t->started = true; main_t->real = pthread_self();
  self = main_t;
  s.current = 0;
  s.active = true;
}
// main thread waits for all others to finish (scheduling them), then deactivates
inline void finish_all() {
  Sched &s = S();
  for (;;) {
    bool all = true;
    for (Thread *t : s.threads) if (t != self && !t->finished) all = false;
    if (all) break;
    // block main on "join any": model as W_BARRIER woken when all finished - simpler: yield to others
    self->wait = W_JOIN;
    for (Thread *t : s.threads) if (t != self && !t->finished) { self->wait_target = t->id; break; }
    block_until_enabled();
    self->wait = W_NONE;
  }
  s.active = false;
}

} // namespace vs

// every native object the library uses has to be initialised by the library first (plibsys has no static initialisers): an operation on
// memory that never went through pthread_*_init works on whatever bytes the allocator returned
template <class M> inline void vs_need_init(M &map, void *obj, const char *op) {
  if (vs::S().active && vs::self && map.find(obj) == map.end())
    vs::verdict("uninitialised-object", std::string(op) + " on a native object that was never initialised (no pthread_*_init call for this address: its content is whatever the allocator returned): " + vs::describe_all());
}
// ---- the redirected primitives ----------------------------------------------------------------------
extern "C" {

inline int vs_lazy_mutex(pthread_mutex_t *m) { (void)m; return 0; }

int vs_pthread_mutex_init(pthread_mutex_t *m, const pthread_mutexattr_t *a) {
  vs::Mutex mx; int type = PTHREAD_MUTEX_DEFAULT;
  if (a && pthread_mutexattr_gettype(a, &type) == 0 && type == PTHREAD_MUTEX_RECURSIVE) mx.recursive = true;   // the attribute is part of the modelled object
  vs::S().mutexes[m] = mx; return 0;
}
int vs_pthread_mutex_destroy(pthread_mutex_t *m) {
  vs::Sched &s = vs::S();
  auto it = s.mutexes.find(m);
  if (it != s.mutexes.end()) { if (s.active && it->second.owner != -1) vs::verdict("model-misuse", "pthread_mutex_destroy of a locked mutex"); s.mutexes.erase(it); }
  return 0;
}
int vs_pthread_mutex_lock(pthread_mutex_t *m) {
  vs::Sched &s = vs::S();
  vs_need_init(s.mutexes, m, "pthread_mutex_lock");
  vs::Mutex &mx = s.mutexes[m];
  if (!s.active || !vs::self) { mx.owner = 0; return 0; }
  vs::point(false);
  if (mx.owner == vs::self->id && mx.recursive) { mx.depth++; return 0; }
  if (mx.owner == vs::self->id) vs::verdict("model-misuse", "pthread_mutex_lock on a mutex the caller already holds (self-deadlock): " + vs::describe_all());
  while (s.mutexes[m].owner != -1) { vs::self->wait = vs::W_MUTEX; vs::self->wait_obj = m; vs::block_until_enabled(); }
  vs::self->wait = vs::W_NONE;
  s.mutexes[m].owner = vs::self->id; s.mutexes[m].locks++;
  VSD("mutex_lock %p", (void *)m);
  return 0;
}
int vs_pthread_mutex_trylock(pthread_mutex_t *m) {
  vs::Sched &s = vs::S();
  vs_need_init(s.mutexes, m, "pthread_mutex_trylock");
  if (!s.active || !vs::self) { vs::Mutex &mx = s.mutexes[m]; if (mx.owner != -1) return EBUSY; mx.owner = 0; return 0; }
  vs::point(false);
  vs::Mutex &mx = s.mutexes[m];
  if (mx.owner == vs::self->id && mx.recursive) { mx.depth++; return 0; }
  if (mx.owner != -1) return EBUSY;
  mx.owner = vs::self->id; mx.locks++;
  return 0;
}
// a timed lock: the deadline is modelled as "may expire whenever the mutex is still held after the other threads had a turn"
int vs_pthread_mutex_timedlock(pthread_mutex_t *m, const struct timespec *) {
  vs::Sched &s = vs::S();
  if (!s.active || !vs::self) { vs::Mutex &mx = s.mutexes[m]; if (mx.owner != -1) return ETIMEDOUT; mx.owner = 0; return 0; }
  for (int turn = 0; turn < 2; turn++) {
    vs::point(false);
    vs::Mutex &mx = s.mutexes[m];
    if (mx.owner == vs::self->id && mx.recursive) { mx.depth++; return 0; }
    if (mx.owner == -1) { mx.owner = vs::self->id; mx.locks++; return 0; }
  }
  return ETIMEDOUT;
}
int vs_pthread_mutex_unlock(pthread_mutex_t *m) {
  vs::Sched &s = vs::S();
  vs_need_init(s.mutexes, m, "pthread_mutex_unlock");
  vs::Mutex &mx = s.mutexes[m];
  if (!s.active || !vs::self) { mx.owner = -1; return 0; }
  if (mx.owner != vs::self->id) vs::verdict("model-misuse", "pthread_mutex_unlock of a mutex the caller does not hold: " + vs::describe_all());
  if (mx.recursive && mx.depth > 0) { mx.depth--; return 0; }
  mx.owner = -1;
  VSD("mutex_unlock %p", (void *)m);
  vs::point(false);
  return 0;
}

int vs_pthread_cond_init(pthread_cond_t *c, const pthread_condattr_t *) { vs::S().conds[c] = vs::Cond(); return 0; }
int vs_pthread_cond_destroy(pthread_cond_t *c) {
  vs::Sched &s = vs::S();
  auto it = s.conds.find(c);
  if (it != s.conds.end()) { if (s.active && !it->second.waiters.empty()) vs::verdict("model-misuse", "pthread_cond_destroy with waiters"); s.conds.erase(it); }
  return 0;
}
int vs_pthread_cond_wait(pthread_cond_t *c, pthread_mutex_t *m) {
  vs::Sched &s = vs::S();
  if (!s.active || !vs::self) return 0;
  auto mit = s.mutexes.find(m);
  if (mit == s.mutexes.end()) vs::verdict("cond-wait-bad-mutex", "pthread_cond_wait called with a pointer that is not an initialised mutex (wrong handle passed by p_cond_variable_wait?)");
  if (mit->second.owner != vs::self->id) vs::verdict("cond-wait-bad-mutex", "pthread_cond_wait called with a mutex the caller does not hold: " + vs::describe_all());
  // atomically: release the mutex and join the wait set
  vs_need_init(s.conds, c, "pthread_cond_wait");
  // the harness marks trylock calls (in_api == 2): taking a short internal mutex is fine, going to sleep until another thread signals is not
  if (vs::self->in_api == 2) vs::verdict("trylock-blocks", std::string(vs::self->api_name) + " went to sleep on a condition variable (a trylock never blocks: it returns FALSE when the mode is not grantable): " + vs::describe_all());
  mit->second.owner = -1;
  vs::Cond &cd = s.conds[c];
  cd.waiters.push_back(vs::self->id);
  VSD("cond_wait %p releases mutex %p", (void *)c, (void *)m);
  s.cond_waits++;
  if ((long)cd.waiters.size() > s.max_cond_waiters) s.max_cond_waiters = (long)cd.waiters.size();
  vs::self->wait = vs::W_COND; vs::self->wait_obj = c; vs::self->woken = false; vs::self->spurious_woken = false;
  vs::block_until_enabled();
  VSD("cond_wait %p woken (%s)", (void *)c, vs::self->spurious_woken ? "spurious" : "signalled");
  // woken (signal, broadcast or spurious): now re-acquire the mutex
  vs::self->woken = false;
  vs::self->wait = vs::W_NONE;
  while (s.mutexes[m].owner != -1) { vs::self->wait = vs::W_MUTEX; vs::self->wait_obj = m; vs::block_until_enabled(); }
  vs::self->wait = vs::W_NONE;
  s.mutexes[m].owner = vs::self->id;
  return 0;
}
int vs_pthread_cond_signal(pthread_cond_t *c) {
  vs::Sched &s = vs::S();
  if (!s.active || !vs::self) return 0;
  vs_need_init(s.conds, c, "pthread_cond_signal");
  vs::Cond &cd = s.conds[c];
  VSD("cond_signal %p waiters=%zu", (void *)c, cd.waiters.size());
  if (!cd.waiters.empty()) {
    s.signals_with_waiters++;
    size_t i = vs::next_choice() % cd.waiters.size();   // which waiter is woken is a schedule choice
    int id = cd.waiters[i];
    cd.waiters.erase(cd.waiters.begin() + (long)i);
    s.threads[(size_t)id]->woken = true;
  }
  vs::point(false);
  return 0;
}
int vs_pthread_cond_broadcast(pthread_cond_t *c) {
  vs::Sched &s = vs::S();
  if (!s.active || !vs::self) return 0;
  vs_need_init(s.conds, c, "pthread_cond_broadcast");
  vs::Cond &cd = s.conds[c];
  VSD("cond_broadcast %p waiters=%zu", (void *)c, cd.waiters.size());
  if (!cd.waiters.empty()) s.signals_with_waiters++;
  for (int id : cd.waiters) s.threads[(size_t)id]->woken = true;
  cd.waiters.clear();
  vs::point(false);
  return 0;
}

int vs_pthread_rwlock_init(pthread_rwlock_t *l, const pthread_rwlockattr_t *) { vs::S().rwlocks[l] = vs::RWLock(); return 0; }
int vs_pthread_rwlock_destroy(pthread_rwlock_t *l) { vs::S().rwlocks.erase(l); return 0; }
int vs_pthread_rwlock_rdlock(pthread_rwlock_t *l) {
  vs::Sched &s = vs::S();
  vs_need_init(s.rwlocks, l, "pthread_rwlock_rdlock");
  if (!s.active || !vs::self) { s.rwlocks[l].readers.insert(0); return 0; }
  vs::point(false);
  if (s.rwlocks[l].writer != -1 && vs::self->in_api == 2) vs::verdict("trylock-blocks", std::string(vs::self->api_name) + " blocks in pthread_rwlock_rdlock (a trylock never blocks): " + vs::describe_all());
  while (s.rwlocks[l].writer != -1) { vs::self->wait = vs::W_RDLOCK; vs::self->wait_obj = l; vs::block_until_enabled(); }
  vs::self->wait = vs::W_NONE;
  s.rwlocks[l].readers.insert(vs::self->id);
  return 0;
}
int vs_pthread_rwlock_tryrdlock(pthread_rwlock_t *l) {
  vs::Sched &s = vs::S();
  vs_need_init(s.rwlocks, l, "pthread_rwlock_tryrdlock");
  if (!s.active || !vs::self) { s.rwlocks[l].readers.insert(0); return 0; }
  vs::point(false);
  if (s.rwlocks[l].writer != -1) return EBUSY;
  s.rwlocks[l].readers.insert(vs::self->id);
  return 0;
}
int vs_pthread_rwlock_wrlock(pthread_rwlock_t *l) {
  vs::Sched &s = vs::S();
  vs_need_init(s.rwlocks, l, "pthread_rwlock_wrlock");
  if (!s.active || !vs::self) { s.rwlocks[l].writer = 0; return 0; }
  vs::point(false);
  if ((s.rwlocks[l].writer != -1 || !s.rwlocks[l].readers.empty()) && vs::self->in_api == 2) vs::verdict("trylock-blocks", std::string(vs::self->api_name) + " blocks in pthread_rwlock_wrlock (a trylock never blocks): " + vs::describe_all());
  while (s.rwlocks[l].writer != -1 || !s.rwlocks[l].readers.empty()) { vs::self->wait = vs::W_WRLOCK; vs::self->wait_obj = l; vs::block_until_enabled(); }
  vs::self->wait = vs::W_NONE;
  s.rwlocks[l].writer = vs::self->id;
  return 0;
}
int vs_pthread_rwlock_trywrlock(pthread_rwlock_t *l) {
  vs::Sched &s = vs::S();
  vs_need_init(s.rwlocks, l, "pthread_rwlock_trywrlock");
  if (!s.active || !vs::self) { s.rwlocks[l].writer = 0; return 0; }
  vs::point(false);
  if (s.rwlocks[l].writer != -1 || !s.rwlocks[l].readers.empty()) return EBUSY;
  s.rwlocks[l].writer = vs::self->id;
  return 0;
}
int vs_pthread_rwlock_unlock(pthread_rwlock_t *l) {
  vs::Sched &s = vs::S();
  vs_need_init(s.rwlocks, l, "pthread_rwlock_unlock");
  vs::RWLock &rw = s.rwlocks[l];
  if (!s.active || !vs::self) { rw.writer = -1; rw.readers.clear(); return 0; }
  if (rw.writer == vs::self->id) rw.writer = -1;
  else if (rw.readers.count(vs::self->id)) rw.readers.erase(vs::self->id);
  else vs::verdict("model-misuse", "pthread_rwlock_unlock by a thread that holds it in no mode");
  vs::point(false);
  return 0;
}

int vs_pthread_create(pthread_t *out, const pthread_attr_t *attr, void *(*fn)(void *), void *arg) {
  vs::Sched &s = vs::S();
  if (!s.active || !vs::self) return pthread_create(out, attr, fn, arg);
  vs::Thread *t = vs::new_thread();
  t->fn = fn; t->arg = arg; t->wait = vs::W_START;
  int ds = PTHREAD_CREATE_JOINABLE;
  if (attr) pthread_attr_getdetachstate(attr, &ds);
  t->detached = ds == PTHREAD_CREATE_DETACHED;
  pthread_attr_t a; pthread_attr_init(&a);
  pthread_attr_setdetachstate(&a, ds);
  pthread_attr_setstacksize(&a, 256 * 1024);
  int r = pthread_create(&t->real, &a, vs::trampoline, t);
  pthread_attr_destroy(&a);
  if (r != 0) { t->finished = true; return r; }
  *out = t->real;
  vs::point(false);   // the new thread may run before create returns to the caller
  return 0;
}
int vs_pthread_join(pthread_t th, void **ret) {
  vs::Sched &s = vs::S();
  if (!s.active || !vs::self) return pthread_join(th, ret);
  vs::Thread *target = nullptr;
  for (vs::Thread *t : s.threads) if (t->id != 0 && pthread_equal(t->real, th)) target = t;
  if (!target) return pthread_join(th, ret);
  vs::point(false);
  while (!target->finished) { vs::self->wait = vs::W_JOIN; vs::self->wait_target = target->id; vs::block_until_enabled(); }
  vs::self->wait = vs::W_NONE;
  return pthread_join(th, ret);
}
int vs_sched_yield(void) { vs::point(false); return 0; }
int vs_clock_nanosleep(clockid_t, int, const struct timespec *, struct timespec *) { vs::point(false); return 0; }

void __sanitizer_cov_trace_pc(void) {
  if (vs::S().active && vs::self) vs::point(false, true);
}
} // extern "C"
