// dsched.cpp - generated multi-threaded programs executed under the deterministic scheduler
// (vsched.h).  Decides the schedule-quantified clauses of C01 (mutex/spinlock), C02 (rwlock),
// C03 (condition variable), C04 (atomics) and C05 (threads/TLS).  One binary per library
// configuration dsched-<atomic>-<rwlock>.
//
// Case format (replay file):
//   dsched <prop>
//   opt spurious=<0|1> budget=<n>
//   sched <hex bytes>              schedule vector (0 = keep running the current thread)
//   obj <kinds...>                 C01: m|s per lock;  C02: one 'w' per rwlock
//   T <round> <round> ...          one line per thread (C01/C02)
//   prog ...                       C03/C04/C05 program description (see parse_*)
#include <rapidcheck.h>
#include <sys/time.h>
#include <dirent.h>
#include <poll.h>
#include "../../vlib/vlib.h"
#include "../../vlib/valloc.h"
#include "vsched.h"
#include <sys/wait.h>
#include <sys/prctl.h>
#include <climits>
extern "C" {
#include <plibsys.h>
}
using std::string;
using std::vector;

namespace {

struct Round { char mode = 'l'; int lock = 0; int work = 1; int barrier = -1; bool has_inner = false; int inner_lock = 0; int inner_work = 1; };
struct Case {
  string prop = "C01";
  bool spurious = false; int budget = 0;
  vector<uint8_t> sched;
  vector<char> objs;
  vector<vector<Round>> threads;
  string prog; // C03..C05: free-form program line
};

string round_text(const Round &r) {
  std::ostringstream os;
  os << r.mode << r.lock << '.' << r.work << '.';
  if (r.barrier >= 0) os << r.barrier; else os << '-';
  if (r.has_inner) os << "+t" << r.inner_lock << '.' << r.inner_work;
  return os.str();
}
string to_text(const Case &c) {
  std::ostringstream os;
  os << "dsched " << c.prop << "\nopt spurious=" << (c.spurious ? 1 : 0) << " budget=" << c.budget << "\nsched ";
  if (c.sched.empty()) os << "-";
  static const char *hx = "0123456789abcdef";
  for (uint8_t b : c.sched) os << hx[b >> 4] << hx[b & 15];
  os << "\n";
  if (!c.objs.empty()) { os << "obj"; for (char k : c.objs) os << ' ' << k; os << "\n"; }
  for (auto &t : c.threads) { os << "T"; for (auto &r : t) os << ' ' << round_text(r); os << "\n"; }
  if (!c.prog.empty()) os << "prog " << c.prog << "\n";
  return os.str();
}
bool parse_round(const string &tok, Round &r) {
  size_t plus = tok.find('+');
  string a = tok.substr(0, plus);
  char bar[16] = "-";
  if (sscanf(a.c_str(), "%c%d.%d.%15s", &r.mode, &r.lock, &r.work, bar) < 3) return false;
  r.barrier = bar[0] == '-' ? -1 : atoi(bar);
  if (plus != string::npos) { r.has_inner = true; char m; if (sscanf(tok.c_str() + plus + 1, "%c%d.%d", &m, &r.inner_lock, &r.inner_work) < 3) return false; }
  return true;
}
bool from_text(const string &t, Case &c) {
  for (auto &l : vl::split_lines(t)) {
    auto w = vl::split_ws(l);
    if (w.empty() || w[0][0] == '#') continue;
    if (w[0] == "dsched" && w.size() > 1) c.prop = w[1];
    else if (w[0] == "opt") { for (size_t i = 1; i < w.size(); i++) { if (w[i].rfind("spurious=", 0) == 0) c.spurious = atoi(w[i].c_str() + 9) != 0; if (w[i].rfind("budget=", 0) == 0) c.budget = atoi(w[i].c_str() + 7); } }
    else if (w[0] == "sched" && w.size() > 1) { if (w[1] != "-") { string b = vl::unhex(w[1]); c.sched.assign(b.begin(), b.end()); } }
    else if (w[0] == "obj") { for (size_t i = 1; i < w.size(); i++) c.objs.push_back(w[i][0]); }
    else if (w[0] == "T") { vector<Round> rs; for (size_t i = 1; i < w.size(); i++) { Round r; if (!parse_round(w[i], r)) return false; rs.push_back(r); } c.threads.push_back(rs); }
    else if (w[0] == "prog") { c.prog = l.substr(l.find("prog") + 5); }
  }
  return true;
}
void showValue(const Case &c, std::ostream &os) { os << to_text(c); }

// ====================================================================================================
// child side: executes one case under the scheduler and reports through fd `g_out`
// ====================================================================================================
int g_out = 2;
// VERIF_PROP=C20: the thread programs of C05 are run for ONE question only - does a library block stay allocated after every thread was
// joined, every handle unreferenced and every key released (under every explored interleaving of first uses, exits and releases)?
// Verdicts of other classes belong to C05 and are not C20's to report.
bool g_as_c20 = false;
void child_fail(const char *klass, const string &msg) {
  if (g_as_c20 && strcmp(klass, "residual-blocks")) { dprintf(g_out, "RESULT ok 0 0\n"); _exit(0); }
  dprintf(g_out, "RESULT fail %s %s\n", klass, msg.c_str());
  _exit(1);
}
void on_verdict(const char *klass, const string &msg) { if (g_as_c20) { dprintf(g_out, "RESULT ok 0 0\n"); return; } dprintf(g_out, "RESULT fail %s %s\n", klass, msg.c_str()); }
#define API(name, expr) ([&] { vs::self->in_api = 1; vs::self->api_name = name; auto _r = (expr); vs::self->in_api = 0; return _r; }())

struct Record { volatile long counter = 0; volatile long check = 0; };

// ---- C01 -------------------------------------------------------------------------------------------
struct C01State {
  vector<char> kinds;
  vector<PMutex *> mutexes;
  vector<PSpinLock *> spins;
  vector<int> holders;           // shadow holder count per lock
  vector<Record> recs;
  vector<long> sections;
  vector<long> epoch;            // bumped at every API entry on the lock (for "uncontended" detection)
  vector<int> in_call;           // threads currently inside an API call on the lock
  long contended = 0, try_true = 0, try_false = 0;
  std::set<int> threads_with_section[8];
};
C01State *g1 = nullptr;
const Case *g_case = nullptr;

void c01_hook() {
#if defined(VERIF_CFG_ATOMIC_c11) || defined(VERIF_CFG_ATOMIC_sync)
  // anchored state of the property: PSpinLock.spin is 0 when free and 1 when held (lock-free models only; the sim model wraps a mutex)
  for (size_t i = 0; i < g1->holders.size(); i++)
    if (g1->kinds[i] == 's' && g1->spins[i]) {
      int word = *(volatile int *)g1->spins[i];
      if (word != 0 && word != 1) { vs::S().on_verdict = nullptr; child_fail("spin-word", "spinlock word is " + std::to_string(word) + " (it must be 0 = free or 1 = held at all times; a drifting word lets a later trylock succeed on a held lock after wrap-around)"); }
      if (g1->in_call[i] == 0 && word != g1->holders[i]) { vs::S().on_verdict = nullptr; child_fail("spin-word", "spinlock word is " + std::to_string(word) + " while " + std::to_string(g1->holders[i]) + " thread(s) hold the lock and no call is in progress"); }
    }
#endif
  for (size_t i = 0; i < g1->holders.size(); i++)
    if (g1->holders[i] > 1 || g1->holders[i] < 0) { vs::S().on_verdict = nullptr; child_fail("exclusion", "lock " + std::to_string(i) + " is held by " + std::to_string(g1->holders[i]) + " threads at the same time"); }
}
bool c01_acquire(int i, bool try_) {
  C01State &g = *g1;
  bool ok;
  bool free_before = g.holders[i] == 0 && g.in_call[i] == 0;
  long ep = ++g.epoch[i];
  g.in_call[i]++;
  if (g.kinds[i] == 'm') ok = try_ ? API("p_mutex_trylock", p_mutex_trylock(g.mutexes[i])) : API("p_mutex_lock", p_mutex_lock(g.mutexes[i]));
  else ok = try_ ? API("p_spinlock_trylock", p_spinlock_trylock(g.spins[i])) : API("p_spinlock_lock", p_spinlock_lock(g.spins[i]));
  g.in_call[i]--;
  if (try_) {
    if (ok) g.try_true++; else g.try_false++;
    if (!ok && free_before && g.epoch[i] == ep && g.holders[i] == 0)
      child_fail("trylock-free", string(g.kinds[i] == 'm' ? "p_mutex_trylock" : "p_spinlock_trylock") + " returned FALSE on a free, uncontended lock");
    if (ok && g.holders[i] != 0) child_fail("exclusion", "trylock returned TRUE while the lock is held (by another thread or by the caller itself)");
  } else if (!ok) child_fail("lock-failed", "lock call returned FALSE");
  if (ok) {
    if (!free_before) g.contended++;
    g.holders[i]++;
    c01_hook();
    g.threads_with_section[i % 8].insert(vs::self->id);
  }
  return ok;
}
void c01_release(int i) {
  C01State &g = *g1;
  g.holders[i]--;
  ++g.epoch[i];
  g.in_call[i]++;
  pboolean ok = g.kinds[i] == 'm' ? API("p_mutex_unlock", p_mutex_unlock(g.mutexes[i])) : API("p_spinlock_unlock", p_spinlock_unlock(g.spins[i]));
  g.in_call[i]--;
  if (!ok) child_fail("unlock-failed", "unlock returned FALSE");
}
void c01_section(int i, int work) {
  C01State &g = *g1;
  Record &r = g.recs[i];
  if (r.check != r.counter * 7) child_fail("visibility", "protected record inconsistent on entry to a critical section (torn or lost update)");
  for (int k = 0; k < work; k++) {
    long c = r.counter;
    vs::point(false);
    r.counter = c + 1;
    vs::point(false);
    r.check = (c + 1) * 7;
  }
  g.sections[i] += work;
  if (r.check != r.counter * 7) child_fail("visibility", "protected record inconsistent at the end of a critical section");
}
void *c01_thread(void *arg) {
  const vector<Round> &rs = *(const vector<Round> *)arg;
  for (auto &r : rs) {
    vs::point(false);
    if (r.mode == 'y') { p_uthread_yield(); continue; }
    bool got = c01_acquire(r.lock, r.mode == 't');
    if (!got) continue;
    c01_section(r.lock, r.work);
    if (r.has_inner && r.inner_lock != r.lock) {
      if (c01_acquire(r.inner_lock, true)) { c01_section(r.inner_lock, r.inner_work); c01_release(r.inner_lock); }
    } else if (r.has_inner) {
      // the holder's own trylock on the lock it holds: "no other trylock returns TRUE" while the lock is held (c01_acquire reports it)
      if (c01_acquire(r.lock, true)) c01_release(r.lock);
    }
    c01_release(r.lock);
  }
  return NULL;
}

// ---- C02 -------------------------------------------------------------------------------------------
struct C02State {
  vector<PRWLock *> locks;
  vector<int> readers, writers;
  vector<Record> recs;
  vector<long> writes;
  vector<long> epoch; vector<int> in_call;
  std::map<int, int> barrier_need, barrier_arrived;
  std::map<int, vector<int>> barrier_waiting;
  long reader_waited = 0, writer_waited = 0, rendezvous_passed = 0, try_true = 0, try_false = 0;
  bool has_reader = false, has_writer = false;
};
C02State *g2 = nullptr;
void c02_hook() {
  for (size_t i = 0; i < g2->locks.size(); i++) {
    int r = g2->readers[i], w = g2->writers[i];
    if (w > 1 || w < 0 || r < 0 || (w == 1 && r > 0)) { vs::S().on_verdict = nullptr; child_fail("exclusion", "rwlock " + std::to_string(i) + " held by " + std::to_string(w) + " writer(s) and " + std::to_string(r) + " reader(s) at the same time"); }
  }
}
bool c02_acquire(int i, char mode) {
  C02State &g = *g2;
  bool writer = mode == 'x' || mode == 'X', try_ = mode == 'R' || mode == 'X';
  bool free_before = g.readers[i] == 0 && g.writers[i] == 0 && g.in_call[i] == 0;
  bool would_wait = writer ? (g.readers[i] > 0 || g.writers[i] > 0) : g.writers[i] > 0;
  long ep = ++g.epoch[i];
  g.in_call[i]++;
  vs::self->in_api = try_ ? 2 : 1;
  pboolean ok;
  switch (mode) {
  case 'r': vs::self->api_name = "p_rwlock_reader_lock"; ok = p_rwlock_reader_lock(g.locks[i]); break;
  case 'R': vs::self->api_name = "p_rwlock_reader_trylock"; ok = p_rwlock_reader_trylock(g.locks[i]); break;
  case 'x': vs::self->api_name = "p_rwlock_writer_lock"; ok = p_rwlock_writer_lock(g.locks[i]); break;
  default: vs::self->api_name = "p_rwlock_writer_trylock"; ok = p_rwlock_writer_trylock(g.locks[i]); break;
  }
  vs::self->in_api = 0;
  g.in_call[i]--;
  if (try_) {
    if (ok) g.try_true++; else g.try_false++;
    if (ok && writer && (g.readers[i] > 0 || g.writers[i] > 0)) child_fail("trylock-grant", "writer trylock returned TRUE while the lock is held");
    if (ok && !writer && g.writers[i] > 0) child_fail("trylock-grant", "reader trylock returned TRUE while a writer holds the lock");
    if (!ok && free_before && g.epoch[i] == ep && g.readers[i] == 0 && g.writers[i] == 0) child_fail("trylock-free", string(writer ? "writer" : "reader") + " trylock returned FALSE on a completely free, uncontended lock");
  } else {
    if (!ok) child_fail("lock-failed", "rwlock lock call returned FALSE");
    if (would_wait) { if (writer) g.writer_waited++; else g.reader_waited++; }
  }
  if (ok) { if (writer) g.writers[i]++; else g.readers[i]++; c02_hook(); }
  return ok;
}
void c02_release(int i, bool writer) {
  C02State &g = *g2;
  if (writer) g.writers[i]--; else g.readers[i]--;
  ++g.epoch[i];
  g.in_call[i]++;
  pboolean ok = writer ? API("p_rwlock_writer_unlock", p_rwlock_writer_unlock(g.locks[i])) : API("p_rwlock_reader_unlock", p_rwlock_reader_unlock(g.locks[i]));
  g.in_call[i]--;
  if (!ok) child_fail("unlock-failed", "rwlock unlock returned FALSE");
}
void harness_barrier(int id) {
  C02State &g = *g2;
  g.barrier_arrived[id]++;
  if (g.barrier_arrived[id] >= g.barrier_need[id]) {
    for (int t : g.barrier_waiting[id]) vs::S().threads[(size_t)t]->woken = true;
    g.barrier_waiting[id].clear();
    g.rendezvous_passed++;
    vs::point(false);
    return;
  }
  g.barrier_waiting[id].push_back(vs::self->id);
  vs::self->wait = vs::W_BARRIER; vs::self->woken = false;
  vs::block_until_enabled();
  vs::self->wait = vs::W_NONE; vs::self->woken = false;
}
void *c02_thread(void *arg) {
  const vector<Round> &rs = *(const vector<Round> *)arg;
  C02State &g = *g2;
  for (auto &r : rs) {
    vs::point(false);
    bool writer = r.mode == 'x' || r.mode == 'X';
    if (!c02_acquire(r.lock, r.mode)) continue;
    Record &rec = g.recs[r.lock];
    if (rec.check != rec.counter * 7) child_fail("visibility", "protected record inconsistent inside a section");
    if (writer) {
      for (int k = 0; k < r.work; k++) { long c = rec.counter; vs::point(false); rec.counter = c + 1; vs::point(false); rec.check = (c + 1) * 7; }
      g.writes[r.lock] += r.work;
    } else {
      for (int k = 0; k < r.work; k++) { long c = rec.counter; vs::point(false); if (rec.counter != c || rec.check != c * 7) child_fail("visibility", "record changed while a reader holds the lock"); }
      if (r.barrier >= 0) harness_barrier(r.barrier);
    }
    c02_release(r.lock, writer);
  }
  return NULL;
}

// ---- C03 -------------------------------------------------------------------------------------------
struct C03Prog { string shape; int cap = 1, prod = 1, items = 2, cons = 1, waiters = 2; char ne = 's', nf = 's', gate = 'b'; int out = 0, phases = 1, try_first = 0; /* gate: phases=2 repeats the gate with the SAME condition variable and a second mutex once nobody waits any more */ /* 1: wake-ups are issued after the mutex was released */ };
bool parse_c03(const string &p, C03Prog &g) {
  auto w = vl::split_ws(p);
  if (w.empty()) return false;
  g.shape = w[0];
  for (size_t i = 1; i < w.size(); i++) {
    size_t e = w[i].find('='); if (e == string::npos) continue;
    string k = w[i].substr(0, e), v = w[i].substr(e + 1);
    if (k == "cap") g.cap = atoi(v.c_str()); else if (k == "prod") g.prod = atoi(v.c_str()); else if (k == "items") g.items = atoi(v.c_str());
    else if (k == "cons") g.cons = atoi(v.c_str()); else if (k == "waiters") g.waiters = atoi(v.c_str());
    else if (k == "ne") g.ne = v[0]; else if (k == "nf") g.nf = v[0]; else if (k == "gate") g.gate = v[0]; else if (k == "out") g.out = atoi(v.c_str()); else if (k == "phases") g.phases = atoi(v.c_str()); else if (k == "try") g.try_first = atoi(v.c_str());
  }
  return true;
}
struct C03State {
  C03Prog p;
  PMutex *m = nullptr, *m0 = nullptr; PCondVariable *not_empty = nullptr, *not_full = nullptr, *gate_cv = nullptr;
  vector<int> queue; vector<int> consumed; int produced_total = 0; int to_consume = 0;
  bool gate_open = false; int passed = 0; int turn = 0;
  int holder = -1; // shadow: who is inside the mutex-protected section
  long try_true = 0, try_false = 0;
};
C03State *g3 = nullptr;
void c03_lock() {
  // try=1 programs: wakers and producers first ask with p_mutex_trylock.  While every other thread is parked in p_cond_variable_wait (or
  // outside its section) the mutex is free - the wait "releases the given mutex" - so the trylock has to succeed
  if (g3->p.try_first) {
    if (API("p_mutex_trylock", p_mutex_trylock(g3->m))) { if (g3->holder != -1) child_fail("wait-reacquire", "p_mutex_trylock returned TRUE while another thread is inside the mutex-protected section"); g3->holder = vs::self->id; g3->try_true++; return; }
    // exact: the modelled native mutex (first field of PMutex) is free at the moment the call returns - nothing can run between the
    // native trylock and this line - so nobody held it when the library answered "taken"
    { auto it = vs::S().mutexes.find((pthread_mutex_t *)g3->m); if (it != vs::S().mutexes.end() && it->second.owner == -1) child_fail("wait-release", "p_mutex_trylock returned FALSE although the mutex is free: a thread blocked in p_cond_variable_wait has to have released the mutex it was given"); }
    g3->try_false++;
  }
  if (!API("p_mutex_lock", p_mutex_lock(g3->m))) child_fail("lock-failed", "p_mutex_lock failed"); if (g3->holder != -1) child_fail("wait-reacquire", "two threads are inside the mutex-protected section (wait returned without the mutex?)"); g3->holder = vs::self->id; }
void c03_unlock() { g3->holder = -1; if (!API("p_mutex_unlock", p_mutex_unlock(g3->m))) child_fail("unlock-failed", "p_mutex_unlock failed"); }
void c03_wait(PCondVariable *cv) {
  g3->holder = -1;
  if (!API("p_cond_variable_wait", p_cond_variable_wait(cv, g3->m))) child_fail("wait-failed", "p_cond_variable_wait returned FALSE");
  if (g3->holder != -1) child_fail("wait-reacquire", "p_cond_variable_wait returned while another thread is inside the mutex-protected section");
  g3->holder = vs::self->id;
}
void c03_wake(PCondVariable *cv, char how) {
  pboolean ok = how == 'b' ? API("p_cond_variable_broadcast", p_cond_variable_broadcast(cv)) : API("p_cond_variable_signal", p_cond_variable_signal(cv));
  if (!ok) child_fail("signal-failed", "signal/broadcast returned FALSE");
}
void *c03_producer(void *arg) {
  long id = (long)arg;
  C03State &g = *g3;
  for (int i = 0; i < g.p.items; i++) {
    vs::point(false);
    c03_lock();
    while ((int)g.queue.size() >= g.p.cap) c03_wait(g.not_full);
    g.queue.push_back((int)id * 1000 + i);
    g.produced_total++;
    if (g.p.out) { c03_unlock(); c03_wake(g.not_empty, g.p.ne); } else { c03_wake(g.not_empty, g.p.ne); c03_unlock(); }
  }
  return NULL;
}
void *c03_consumer(void *arg) {
  long quota = (long)arg;
  C03State &g = *g3;
  for (long i = 0; i < quota; i++) {
    vs::point(false);
    c03_lock();
    while (g.queue.empty()) c03_wait(g.not_empty);
    g.consumed.push_back(g.queue.front());
    g.queue.erase(g.queue.begin());
    if (g.p.out) { c03_unlock(); c03_wake(g.not_full, g.p.nf); } else { c03_wake(g.not_full, g.p.nf); c03_unlock(); }
  }
  return NULL;
}
// "pp": T threads pass a token round-robin over ONE condition variable: every thread waits for its own predicate (turn == me) on the same
// condition variable its predecessor signals through, and the thread that has just woken the next one goes straight back to waiting
void *c03_pp_thread(void *arg) {
  long me = (long)arg; C03State &g = *g3;
  vs::point(false);
  for (int r = 0; r < g.p.items; r++) {
    c03_lock();
    while (g.turn != (int)me) c03_wait(g.gate_cv);
    g.turn = (int)((me + 1) % g.p.waiters); g.passed++;
    if (g.p.out) { c03_unlock(); c03_wake(g.gate_cv, g.p.gate); } else { c03_wake(g.gate_cv, g.p.gate); c03_unlock(); }
  }
  return NULL;
}
void *c03_gate_waiter(void *) {
  C03State &g = *g3;
  vs::point(false);
  c03_lock();
  while (!g.gate_open) c03_wait(g.gate_cv);
  g.passed++;
  c03_unlock();
  return NULL;
}
void *c03_gate_opener(void *) {
  C03State &g = *g3;
  vs::point(false);
  c03_lock();
  g.gate_open = true;
  if (g.p.out) c03_unlock();
  if (g.p.gate == 'b') c03_wake(g.gate_cv, 'b');
  else if (g.p.gate == 'm') { c03_wake(g.gate_cv, 'b'); c03_wake(g.gate_cv, 's'); }   // a broadcast followed by a (superfluous) signal: all waiters still pass
  else if (g.p.gate == 'M') { c03_wake(g.gate_cv, 's'); c03_wake(g.gate_cv, 'b'); }
  else for (int i = 0; i < g.p.waiters; i++) c03_wake(g.gate_cv, 's');
  if (!g.p.out) c03_unlock();
  return NULL;
}

// ---- C04 (atomic histories; exact linearizability by search) ----------------------------------------
struct AOp { char kind; long a = 0, b = 0; long ret = 0; bool bret = false; int thread = 0; };
struct C04State { volatile pint word = 0; volatile psize pword = 0; vector<vector<AOp>> progs; bool use_ptr = false; };
C04State *g4 = nullptr;
bool parse_c04(const string &p, C04State &g, long &init) {
  // prog <int|ptr> init=<v> | <ops of thread 1> | <ops of thread 2> ...   ops: i d a<v> n<v> o<v> x<v> c<old>,<new> g s<v>
  auto parts = vl::split_ws(p);
  if (parts.empty()) return false;
  g.use_ptr = parts[0] == "ptr";
  init = 0;
  vector<AOp> cur; bool any = false;
  for (size_t i = 1; i < parts.size(); i++) {
    const string &t = parts[i];
    if (t.rfind("init=", 0) == 0) { init = atol(t.c_str() + 5); continue; }
    if (t == "|") { if (any) g.progs.push_back(cur); cur.clear(); any = true; continue; }
    AOp o; o.kind = t[0];
    if (g.use_ptr && (o.kind == 'i' || o.kind == 'd')) o.kind = 'g'; // inc / dec_and_test exist for int only
    if (o.kind == 'c') sscanf(t.c_str() + 1, "%ld,%ld", &o.a, &o.b); else if (t.size() > 1) o.a = atol(t.c_str() + 1);
    cur.push_back(o);
  }
  if (any) g.progs.push_back(cur);
  return !g.progs.empty();
}
void *c04_thread(void *arg) {
  long ti = (long)arg;
  C04State &g = *g4;
  for (auto &o : g.progs[(size_t)ti]) {
    vs::point(false);
    if (!g.use_ptr) {
      switch (o.kind) {
      case 'i': p_atomic_int_inc(&g.word); break;
      case 'd': o.bret = p_atomic_int_dec_and_test(&g.word); break;
      case 'a': o.ret = p_atomic_int_add(&g.word, (pint)o.a); break;
      case 'n': o.ret = (long)p_atomic_int_and((puint *)&g.word, (puint)o.a); break;
      case 'o': o.ret = (long)p_atomic_int_or((puint *)&g.word, (puint)o.a); break;
      case 'x': o.ret = (long)p_atomic_int_xor((puint *)&g.word, (puint)o.a); break;
      case 'c': o.bret = p_atomic_int_compare_and_exchange(&g.word, (pint)o.a, (pint)o.b); break;
      case 'g': o.ret = p_atomic_int_get(&g.word); break;
      case 's': p_atomic_int_set(&g.word, (pint)o.a); break;
      }
    } else {
      switch (o.kind) {
      case 'a': o.ret = (long)p_atomic_pointer_add((void *)&g.pword, (pssize)o.a); break;
      case 'n': o.ret = (long)p_atomic_pointer_and((void *)&g.pword, (psize)o.a); break;
      case 'o': o.ret = (long)p_atomic_pointer_or((void *)&g.pword, (psize)o.a); break;
      case 'x': o.ret = (long)p_atomic_pointer_xor((void *)&g.pword, (psize)o.a); break;
      case 'c': o.bret = p_atomic_pointer_compare_and_exchange((void *)&g.pword, (ppointer)o.a, (ppointer)o.b); break;
      case 'g': o.ret = (long)p_atomic_pointer_get((void *)&g.pword); break;
      case 's': p_atomic_pointer_set((void *)&g.pword, (ppointer)o.a); break;
      default: break;
      }
    }
  }
  return NULL;
}
// sequential semantics of one op on value v (32-bit wrapping for int, word for ptr); returns whether the recorded result matches
bool apply_op(const AOp &o, bool ptr, uint64_t &v) {
  auto W = [&](uint64_t x) { return ptr ? x : (uint64_t)(uint32_t)x; };
  uint64_t old = v;
  switch (o.kind) {
  case 'i': v = W(v + 1); return true;
  case 'd': v = W(v - 1); return o.bret == (v == 0);
  case 'a': v = W(v + (uint64_t)o.a); return W((uint64_t)o.ret) == old;
  case 'n': v = W(v & (uint64_t)o.a); return W((uint64_t)o.ret) == old;
  case 'o': v = W(v | W((uint64_t)o.a)); return W((uint64_t)o.ret) == old;
  case 'x': v = W(v ^ W((uint64_t)o.a)); return W((uint64_t)o.ret) == old;
  case 'c': if (old == W((uint64_t)o.a)) { v = W((uint64_t)o.b); return o.bret; } return !o.bret;
  case 'g': return W((uint64_t)o.ret) == old;
  case 's': v = W((uint64_t)o.a); return true;
  }
  return false;
}
bool lin_search(const vector<vector<AOp>> &progs, vector<size_t> &pos, bool ptr, uint64_t v, uint64_t final_v, std::set<std::pair<vector<size_t>, uint64_t>> &seen) {
  bool done = true;
  for (size_t t = 0; t < progs.size(); t++) if (pos[t] < progs[t].size()) done = false;
  if (done) return v == final_v;
  if (!seen.insert({pos, v}).second) return false;
  for (size_t t = 0; t < progs.size(); t++) {
    if (pos[t] >= progs[t].size()) continue;
    uint64_t nv = v;
    if (!apply_op(progs[t][pos[t]], ptr, nv)) continue;
    pos[t]++;
    if (lin_search(progs, pos, ptr, nv, final_v, seen)) { pos[t]--; return true; }
    pos[t]--;
  }
  return false;
}

// ---- C05 (threads / handles / TLS) ------------------------------------------------------------------
// prog thr <n> | per-thread spec tokens ... ; see genC05 for the grammar:
//   t <joinable 0|1> <name 0|1|2> <exit r|e<code>> <ops...>       thread body ops: s<k>,<v> r<k>,<v> g<k> c R U y
//   m <ops...>                                                     main ops after creation: j<i> u<i> f<i>(ref) y
struct TOp { char kind; int a = 0, b = 0; };
struct TSpec { bool joinable = true; int name = 0; bool exit_call = false; int code = 0; vector<TOp> ops; };
struct C05State {
  vector<TSpec> specs; vector<TOp> main_ops; int nkeys = 1; vector<int> key_has_notifier;
  vector<PUThread *> handles; vector<PUThreadKey *> keys;
  vector<int> main_refs;       // references main owns per thread
  vector<bool> body_done;      // model clock: body finished
  vector<bool> joined;
  vector<long> result;         // plain store by the thread, read by main after join
  // TLS value tracking
  struct Val { int id; int thread; int key; int destroyed = 0; bool expect_destroy = false; };
  vector<Val *> vals;
  vector<vector<Val *>> cur;   // [thread][key] current value
  long freed_while_referenced = 0;
  bool first_before_create_return = false, last_ref_dropped_before_start = false, unref_vs_exit_overlap = false;
  vector<bool> started;
  vector<bool> create_returned;
  // keys=..f: every thread parks on this gate after its TLS operations, main then releases all key REFERENCES ("doesn't remove the TLS
  // key itself") and opens the gate: values still held must be destroyed exactly once when their threads exit
  bool keyfree = false; pthread_mutex_t gm; pthread_cond_t g_arrive, g_open; int arrived = 0; bool gate_open = false;
};
C05State *g5 = nullptr;
void c05_notifier(ppointer p) {
  C05State::Val *v = (C05State::Val *)p;
  v->destroyed++;
  if (v->destroyed > 1) child_fail("tls-notifier-twice", "TLS destroy notifier ran twice for one value");
}
bool parse_c05(const string &p, C05State &g) {
  auto w = vl::split_ws(p);
  size_t i = 0;
  if (i < w.size() && w[i].rfind("keys=", 0) == 0) { string ks = w[i].substr(5); if (!ks.empty() && ks.back() == 'f') { g.keyfree = true; ks.pop_back(); } g.nkeys = (int)ks.size(); for (char ch : ks) g.key_has_notifier.push_back(ch == '1'); i++; }
  TSpec *cur = nullptr; bool in_main = false;
  for (; i < w.size(); i++) {
    const string &t = w[i];
    if (t == "|") { cur = nullptr; in_main = false; continue; }
    if (t == "t") { g.specs.push_back(TSpec()); cur = &g.specs.back(); in_main = false;
      if (i + 3 < w.size()) { cur->joinable = w[i + 1] == "1"; cur->name = atoi(w[i + 2].c_str()); const string &e = w[i + 3]; cur->exit_call = e[0] == 'e'; cur->code = e.size() > 1 ? atoi(e.c_str() + 1) : 0; i += 3; }
      continue; }
    if (t == "m") { in_main = true; cur = nullptr; continue; }
    TOp o; o.kind = t[0];
    if (t.size() > 1) sscanf(t.c_str() + 1, "%d,%d", &o.a, &o.b);
    if (in_main) g.main_ops.push_back(o); else if (cur) cur->ops.push_back(o);
  }
  if (g.key_has_notifier.empty()) { g.nkeys = 1; g.key_has_notifier.push_back(1); }
  return !g.specs.empty();
}
ppointer c05_body(ppointer arg) {
  long ti = (long)arg;
  C05State &g = *g5;
  g.started[(size_t)ti] = true;
  if (!g.create_returned[(size_t)ti]) g.first_before_create_return = true;
  if (g.main_refs[(size_t)ti] == 0 && g.create_returned[(size_t)ti]) g.last_ref_dropped_before_start = true;
  const TSpec &sp = g.specs[(size_t)ti];
  for (auto &o : sp.ops) {
    vs::point(false);
    switch (o.kind) {
    case 's': case 'r': {
      int k = o.a % g.nkeys;
      C05State::Val *nv = nullptr;
      if (o.b != 0) { nv = new C05State::Val(); nv->id = (int)g.vals.size(); nv->thread = (int)ti; nv->key = k; g.vals.push_back(nv); }
      C05State::Val *old = g.cur[(size_t)ti][(size_t)k];
      int before = old ? old->destroyed : 0;
      if (o.kind == 's') p_uthread_set_local(g.keys[(size_t)k], nv); else p_uthread_replace_local(g.keys[(size_t)k], nv);
      if (old) {
        int want = (o.kind == 'r' && g.key_has_notifier[(size_t)k]) ? before + 1 : before;
        if (old->destroyed != want) child_fail(o.kind == 'r' ? "tls-replace-notifier" : "tls-set-notifier", string(o.kind == 'r' ? "p_uthread_replace_local" : "p_uthread_set_local") + ": notifier ran " + std::to_string(old->destroyed - before) + " time(s) for the old value, expected " + std::to_string(want - before));
      }
      g.cur[(size_t)ti][(size_t)k] = nv;
      break;
    }
    case 'g': { int k = o.a % g.nkeys; ppointer v = p_uthread_get_local(g.keys[(size_t)k]); if (v != (ppointer)g.cur[(size_t)ti][(size_t)k]) child_fail("tls-independent", "p_uthread_get_local did not return the calling thread's last stored value"); break; }
    case 'c': { PUThread *me = p_uthread_current(); if (me != g.handles[(size_t)ti] && g.create_returned[(size_t)ti]) child_fail("current", "p_uthread_current() in a created thread is not its handle"); break; }
    case 'R': p_uthread_ref(p_uthread_current()); p_uthread_unref(p_uthread_current()); break;
    case 'y': p_uthread_yield(); break;
    default: break;
    }
  }
  g.result[(size_t)ti] = 4242 + ti;
  if (g.keyfree) {
    vs_pthread_mutex_lock(&g.gm); g.arrived++; vs_pthread_cond_broadcast(&g.g_arrive);
    while (!g.gate_open) vs_pthread_cond_wait(&g.g_open, &g.gm);
    vs_pthread_mutex_unlock(&g.gm);
  }
  // values left at exit must be destroyed exactly once (if the key has a notifier)
  for (int k = 0; k < g.nkeys; k++) if (g.cur[(size_t)ti][(size_t)k]) g.cur[(size_t)ti][(size_t)k]->expect_destroy = g.key_has_notifier[(size_t)k] != 0;
  g.body_done[(size_t)ti] = true;
  if (sp.exit_call) p_uthread_exit(sp.code);
  // "0 if its function simply returned" - whatever pointer it returns (odd threads return a non-NULL one)
  return (ti % 2) ? (ppointer)(psize)(0x7f001000u + (unsigned)sp.code * 16 + (unsigned)ti) : NULL;
}

// handle lifetime through the tracking allocator (installed via p_mem_set_vtable): the block returned by
// p_uthread_create must stay allocated while main owns a reference or the thread has not finished its exit
// destructors, and must be released (exactly once) afterwards.
bool block_live(void *p) { va::Lock lk; return va::st().live.count(p) != 0; }
void c05_hook() {
  C05State &g = *g5;
  for (size_t i = 0; i < g.handles.size(); i++) {
    if (!g.handles[i]) continue;
    // the thread's own reference is dropped by its exit destructor, i.e. at some point after its body finished
    bool thread_done = g.body_done[i];
    if ((g.main_refs[i] > 0 || !thread_done) && !block_live(g.handles[i])) {
      vs::S().on_verdict = nullptr;
      child_fail("handle-freed-early", "thread handle " + std::to_string(i) + " was released while " + (g.main_refs[i] > 0 ? "main still owns a reference" : "its thread function has not finished"));
    }
  }
}

// ====================================================================================================
void run_child(const Case &c) {
  vs::S().on_verdict = on_verdict;
  g_case = &c;
  long nontrivial = 0;
  uint64_t fp = 0;
  if (c.prop == "C01") {
    C01State g; g1 = &g;
    g.kinds = c.objs;
    size_t n = g.kinds.size();
    g.mutexes.resize(n); g.spins.resize(n); g.holders.assign(n, 0); g.recs.resize(n); g.sections.assign(n, 0); g.epoch.assign(n, 0); g.in_call.assign(n, 0);
    // kind 'S': a spinlock that receives a redundant unlock while it is free and nobody else exists yet ("It is also safe to call this
    // routine on an unlocked spinlock", pspinlock.h): afterwards it must still be a free lock - trylock succeeds, the word is 0
    vector<bool> preunlock(n, false);
    for (size_t i = 0; i < n; i++) if (g.kinds[i] == 'S') { g.kinds[i] = 's'; preunlock[i] = true; }
    for (size_t i = 0; i < n; i++) { if (g.kinds[i] == 'm') g.mutexes[i] = p_mutex_new(); else g.spins[i] = p_spinlock_new(); }
    vs::begin(c.sched, false, 0);
    vs::S().point_hooks.push_back(c01_hook);
#if defined(VERIF_CFG_ATOMIC_c11) || defined(VERIF_CFG_ATOMIC_sync)
    // (not for the sim model: there the call is pthread_mutex_unlock on an unlocked mutex, which POSIX leaves undefined although the
    //  header calls it safe - observed, not asserted)
    for (size_t i = 0; i < n; i++) if (preunlock[i]) {
      g.in_call[i]++;
      if (!API("p_spinlock_unlock", p_spinlock_unlock(g.spins[i]))) child_fail("unlock-failed", "p_spinlock_unlock on a free spinlock returned FALSE");
      g.in_call[i]--;
      c01_hook();
      g.in_call[i]++;
      if (!API("p_spinlock_trylock", p_spinlock_trylock(g.spins[i]))) child_fail("trylock-free", "p_spinlock_trylock failed on a free, uncontended spinlock (after a redundant unlock, which the header documents as safe)");
      g.holders[i] = 1; g.in_call[i]--;
      c01_hook();
      g.in_call[i]++; g.holders[i] = 0;
      if (!API("p_spinlock_unlock", p_spinlock_unlock(g.spins[i]))) child_fail("unlock-failed", "p_spinlock_unlock returned FALSE");
      g.in_call[i]--;
      c01_hook();
    }
#endif
    vector<pthread_t> th(c.threads.size());
    for (size_t i = 0; i < c.threads.size(); i++) vs_pthread_create(&th[i], NULL, c01_thread, (void *)&c.threads[i]);
    vs::finish_all();
    for (size_t i = 0; i < n; i++) {
      if (g.recs[i].counter != g.sections[i]) child_fail("visibility", "lost update: protected counter " + std::to_string(g.recs[i].counter) + " != sections executed " + std::to_string(g.sections[i]));
      if (g.holders[i] != 0) child_fail("harness", "holder count not zero at end");
    }
    bool two = false; for (int i = 0; i < 8; i++) if (g.threads_with_section[i].size() >= 2) two = true;
    nontrivial = g.contended > 0 && two;
    dprintf(g_out, "STAT contended %ld\nSTAT try_true %ld\nSTAT try_false %ld\n", g.contended, g.try_true, g.try_false);
  } else if (c.prop == "C02") {
    C02State g; g2 = &g;
    size_t n = c.objs.size();
    g.locks.resize(n); g.readers.assign(n, 0); g.writers.assign(n, 0); g.recs.resize(n); g.writes.assign(n, 0); g.epoch.assign(n, 0); g.in_call.assign(n, 0);
    for (size_t i = 0; i < n; i++) g.locks[i] = p_rwlock_new();
    std::set<int> rlocks, wlocks;
    for (auto &t : c.threads) for (auto &r : t) { if (r.barrier >= 0) g.barrier_need[r.barrier]++; if (r.mode == 'r' || r.mode == 'R') rlocks.insert(r.lock); else wlocks.insert(r.lock); }
    bool rw_same = false; for (int l : rlocks) if (wlocks.count(l)) rw_same = true;
    vs::begin(c.sched, c.spurious, c.budget);
    vs::S().point_hooks.push_back(c02_hook);
    vector<pthread_t> th(c.threads.size());
    for (size_t i = 0; i < c.threads.size(); i++) vs_pthread_create(&th[i], NULL, c02_thread, (void *)&c.threads[i]);
    vs::finish_all();
    for (size_t i = 0; i < n; i++) if (g.recs[i].counter != g.writes[i]) child_fail("visibility", "lost update under writer lock");
    bool waited = vs::S().blocks > 0 && (g.reader_waited + g.writer_waited) > 0;
    nontrivial = rw_same && waited;
    dprintf(g_out, "STAT reader_waited_for_writer %ld\nSTAT writer_waited %ld\nSTAT rendezvous_passed %ld\nSTAT try_true %ld\nSTAT try_false %ld\n", g.reader_waited, g.writer_waited, g.rendezvous_passed, g.try_true, g.try_false);
  } else if (c.prop == "C03") {
    C03State g; g3 = &g;
    if (!parse_c03(c.prog, g.p)) child_fail("harness", "bad C03 program");
    g.m = g.m0 = p_mutex_new(); g.not_empty = p_cond_variable_new(); g.not_full = p_cond_variable_new(); g.gate_cv = p_cond_variable_new();
    vs::begin(c.sched, c.spurious, c.budget);
    vector<pthread_t> th;
    if (g.p.shape == "bb") {
      int total = g.p.prod * g.p.items;
      for (long i = 0; i < g.p.prod; i++) { pthread_t t; vs_pthread_create(&t, NULL, c03_producer, (void *)i); th.push_back(t); }
      for (long i = 0; i < g.p.cons; i++) { long quota = total / g.p.cons + (i < total % g.p.cons ? 1 : 0); pthread_t t; vs_pthread_create(&t, NULL, c03_consumer, (void *)quota); th.push_back(t); }
      vs::finish_all();
      vector<int> cs = g.consumed; std::sort(cs.begin(), cs.end());
      vector<int> want; for (int p = 0; p < g.p.prod; p++) for (int i = 0; i < g.p.items; i++) want.push_back(p * 1000 + i);
      std::sort(want.begin(), want.end());
      if (cs != want) child_fail("exchange", "consumed items differ from produced items (lost or duplicated event)");
      // per-producer FIFO order
      std::map<int, int> last; for (int v : g.consumed) { int p = v / 1000; if (last.count(p) && last[p] > v) child_fail("exchange", "items of one producer consumed out of order"); last[p] = v; }
    } else if (g.p.shape == "pp") {
      if (g.p.waiters > 2) g.p.gate = 'b';   // with more than two parties a signal may wake the wrong one: broadcast is the correct protocol
      for (long i = 0; i < g.p.waiters; i++) { pthread_t t; vs_pthread_create(&t, NULL, c03_pp_thread, (void *)i); th.push_back(t); }
      vs::finish_all();
      if (g.passed != g.p.waiters * g.p.items) child_fail("exchange", "token passing over one condition variable did not complete");
    } else {
      PMutex *m2 = p_mutex_new();
      for (int ph = 0; ph < g.p.phases; ph++) {
        // a condition variable is bound to a mutex only while somebody waits on it: the next phase, started when every thread of
        // the previous one was joined, pairs the same condition variable with another mutex
        if (ph > 0) { for (pthread_t t : th) vs_pthread_join(t, NULL); th.clear(); if (g.passed != g.p.waiters) child_fail("exchange", "not every waiter passed the gate"); g.m = ph % 2 ? m2 : g.m0; g.gate_open = false; g.passed = 0; }
        for (long i = 0; i < g.p.waiters; i++) { pthread_t t; vs_pthread_create(&t, NULL, c03_gate_waiter, NULL); th.push_back(t); }
        pthread_t t; vs_pthread_create(&t, NULL, c03_gate_opener, NULL); th.push_back(t);
      }
      vs::finish_all();
      if (g.passed != g.p.waiters) child_fail("exchange", "not every waiter passed the gate");
    }
    nontrivial = vs::S().max_cond_waiters >= 2 && vs::S().signals_with_waiters >= 1;
    dprintf(g_out, "STAT cond_waits %ld\nSTAT max_cond_waiters %ld\nSTAT wakeups_with_waiters %ld\nSTAT try_true %ld\nSTAT try_false %ld\n", vs::S().cond_waits, vs::S().max_cond_waiters, vs::S().signals_with_waiters, g.try_true, g.try_false);
  } else if (c.prop == "C04") {
    C04State g; g4 = &g;
    long init = 0;
    if (!parse_c04(c.prog, g, init)) child_fail("harness", "bad C04 program");
    g.word = (pint)init; g.pword = (psize)init;
    vs::begin(c.sched, false, 0);
    vector<pthread_t> th(g.progs.size());
    for (size_t i = 0; i < g.progs.size(); i++) vs_pthread_create(&th[i], NULL, c04_thread, (void *)(long)i);
    vs::finish_all();
    uint64_t final_v = g.use_ptr ? (uint64_t)g.pword : (uint64_t)(uint32_t)g.word;
    uint64_t v0 = g.use_ptr ? (uint64_t)init : (uint64_t)(uint32_t)init;
    vector<size_t> pos(g.progs.size(), 0);
    std::set<std::pair<vector<size_t>, uint64_t>> seen;
    if (!lin_search(g.progs, pos, g.use_ptr, v0, final_v, seen)) {
      std::ostringstream os; os << "no sequential order of the atomic operations explains the returned values and the final value " << final_v << ":";
      for (size_t t = 0; t < g.progs.size(); t++) { os << " |"; for (auto &o : g.progs[t]) os << ' ' << o.kind << o.a << "->" << (o.kind == 'd' || o.kind == 'c' ? (long)o.bret : o.ret); }
      child_fail("linearizability", os.str());
    }
    nontrivial = vs::S().preemptions > 0 && g.progs.size() >= 2;
  } else if (c.prop == "C05") {
    C05State g; g5 = &g;
    if (!parse_c05(c.prog, g)) child_fail("harness", "bad C05 program");
    size_t n = g.specs.size();
    g.handles.assign(n, nullptr); g.main_refs.assign(n, 0); g.body_done.assign(n, false); g.joined.assign(n, false); g.result.assign(n, 0);
    g.started.assign(n, false); g.create_returned.assign(n, false);
    g.cur.assign(n, vector<C05State::Val *>((size_t)g.nkeys, nullptr));
    for (int k = 0; k < g.nkeys; k++) g.keys.push_back(p_uthread_local_new(g.key_has_notifier[(size_t)k] ? c05_notifier : NULL));
    size_t live0 = va::live_count();
    vs::begin(c.sched, false, 0);
    if (g.keyfree) { vs_pthread_mutex_init(&g.gm, NULL); vs_pthread_cond_init(&g.g_arrive, NULL); vs_pthread_cond_init(&g.g_open, NULL); }
    static const char *names[] = {NULL, "thr", "a-very-long-thread-name-over-15-chars"};
    for (size_t i = 0; i < n; i++) {
      PUThread *h = p_uthread_create(c05_body, (ppointer)(long)i, g.specs[i].joinable ? TRUE : FALSE, names[g.specs[i].name % 3]);
      if (!h) child_fail("create", "p_uthread_create returned NULL");
      g.handles[i] = h; g.main_refs[i] = 1; g.create_returned[i] = true;
      if (i == 0) vs::S().point_hooks.push_back(c05_hook);
      vs::point(false);
    }
    if (g.keyfree) {
      vs_pthread_mutex_lock(&g.gm); while (g.arrived < (int)n) vs_pthread_cond_wait(&g.g_arrive, &g.gm); vs_pthread_mutex_unlock(&g.gm);
      for (int k = 0; k < g.nkeys; k++) { vs::point(false); p_uthread_local_free(g.keys[(size_t)k]); g.keys[(size_t)k] = NULL; }
      vs_pthread_mutex_lock(&g.gm); g.gate_open = true; vs_pthread_cond_broadcast(&g.g_open); vs_pthread_mutex_unlock(&g.gm);
    }
    for (auto &o : g.main_ops) {
      vs::point(false);
      size_t i = (size_t)o.a % n;
      switch (o.kind) {
      case 'f': if (g.main_refs[i] > 0) { p_uthread_ref(g.handles[i]); g.main_refs[i]++; } break;
      case 'u': if (g.main_refs[i] > 0 && !(g.main_refs[i] == 1 && g.specs[i].joinable && !g.joined[i] && false)) { if (!g.body_done[i] ) g.unref_vs_exit_overlap = g.unref_vs_exit_overlap || g.started[i]; g.main_refs[i]--; p_uthread_unref(g.handles[i]); } break;
      case 'j':
        if (g.main_refs[i] > 0 && g.specs[i].joinable && !g.joined[i]) {
          pint code = p_uthread_join(g.handles[i]);
          g.joined[i] = true;
          if (!g.body_done[i]) child_fail("join-early", "p_uthread_join returned before the thread's function finished");
          int want = g.specs[i].exit_call ? g.specs[i].code : 0;
          if (code != want) child_fail("join-code", "p_uthread_join returned " + std::to_string(code) + ", the thread exited with " + std::to_string(want));
          if (g.result[i] != 4242 + (long)i) child_fail("join-visibility", "value written by the thread is not visible after join");
        }
        break;
      case 'y': p_uthread_yield(); break;
      default: break;
      }
    }
    // drop everything that is left: join joinable threads first (so they are reaped), then unref
    for (size_t i = 0; i < n; i++) {
      vs::point(false);
      if (g.main_refs[i] > 0 && g.specs[i].joinable && !g.joined[i]) {
        pint code = p_uthread_join(g.handles[i]); g.joined[i] = true;
        int want = g.specs[i].exit_call ? g.specs[i].code : 0;
        if (!g.body_done[i]) child_fail("join-early", "p_uthread_join returned before the thread's function finished");
        if (code != want) child_fail("join-code", "p_uthread_join returned " + std::to_string(code) + ", the thread exited with " + std::to_string(want));
      }
      while (g.main_refs[i] > 0) { g.main_refs[i]--; p_uthread_unref(g.handles[i]); }
    }
    vs::finish_all();
    // joinable threads that main never joined (it dropped its last reference first) are reaped here
    for (vs::Thread *t : vs::S().threads) if (t->id != 0 && !t->detached) { bool was_joined = false; (void)was_joined; }
    // TLS notifier accounting
    for (auto *v : g.vals) {
      int want = v->expect_destroy ? 1 : -1; // -1: decided at replace/set time already
      if (v->expect_destroy && v->destroyed != 1) child_fail("tls-exit-notifier", "TLS value left at thread exit: notifier ran " + std::to_string(v->destroyed) + " time(s), expected exactly once");
      (void)want;
    }
    for (size_t i = 0; i < n; i++) if (block_live(g.handles[i])) child_fail("handle-leak", "thread handle " + std::to_string(i) + " is still allocated after the last reference was dropped and the thread finished");
    if (va::st().frees_of_unknown) child_fail("handle-double-free", "a block was released twice (or a foreign pointer was passed to p_free)");
    // handle blocks and everything else allocated by thread machinery must be gone
    for (int k = 0; k < g.nkeys; k++) if (g.keys[(size_t)k]) p_uthread_local_free(g.keys[(size_t)k]);
    long left = (long)va::live_count() - (long)live0;
    dprintf(g_out, "STAT residual_blocks %ld\n", left);
    if (g_as_c20 && left > 0) child_fail("residual-blocks", std::to_string(left) + " library block(s) are still allocated after every thread was joined or had finished, every handle was unreferenced and every TLS key released (the same program leaves none behind under other interleavings)");
    nontrivial = g.first_before_create_return || g.last_ref_dropped_before_start || g.unref_vs_exit_overlap;
    dprintf(g_out, "STAT thread_ran_before_create_returned %d\nSTAT last_ref_dropped_before_thread_start %d\nSTAT unref_overlaps_running_thread %d\n", (int)g.first_before_create_return, (int)g.last_ref_dropped_before_start, (int)g.unref_vs_exit_overlap);
  }
  dprintf(g_out, "STAT preemptions %ld\nSTAT blocks %ld\nSTAT trace_points %ld\nSTAT spurious %ld\nSTAT steps %ld\n", vs::S().preemptions, vs::S().blocks, vs::S().trace_points, vs::S().spurious_delivered, vs::S().steps);
  fp = vl::fnv1a(vs::S().trace, vl::fnv1a(to_text(c).substr(0, 0)));
  dprintf(g_out, "RESULT ok %ld %llu\n", nontrivial, (unsigned long long)fp);
  _exit(0);
}

// ====================================================================================================
// parent side
// ====================================================================================================
struct Outcome { string verdict, klass; bool nontrivial = false; uint64_t fp = 0; bool inconclusive = false; std::map<string, long> stats; };

Outcome run_case_forked(const Case &c) {
  Outcome o;
  int pfd[2];
  if (pipe(pfd) != 0) { o.verdict = "pipe failed"; o.klass = "harness"; return o; }
  fflush(NULL);
  pid_t pid = fork();
  if (pid == 0) {
    prctl(PR_SET_PDEATHSIG, SIGKILL);
    close(pfd[0]);
    g_out = pfd[1];
    dup2(pfd[1], 2);
    alarm(150);   // wall-clock watchdog (inconclusive); the CPU-time verdict below has to be able to come first on a loaded machine
    // a case takes milliseconds (200000 scheduling steps about a second): a child that has burnt 12 s of its own CPU time is a thread
    // spinning inside a library call without ever reaching a scheduling point - with the baton in its hand nobody else can run, so the
    // call never returns.  CPU time of the process (ITIMER_VIRTUAL), not wall time: load cannot trigger it.
    signal(SIGVTALRM, [](int) {
      const char *api = vs::self && vs::self->in_api ? vs::self->api_name : "(harness code)";
      if (!g_as_c20) dprintf(g_out, "RESULT fail no-return the case burnt 12 s of CPU time without reaching a scheduling point: the thread holding the scheduler baton spins inside %s and the call never returns (every other thread of the program can only run when it yields)\n", api);
      else dprintf(g_out, "RESULT ok 0 0\n");
      _exit(1);
    });
    { struct itimerval it; memset(&it, 0, sizeof it); it.it_value.tv_sec = 12; setitimer(ITIMER_VIRTUAL, &it, NULL); }
    run_child(c);
    _exit(0);
  }
  close(pfd[1]);
  string out; char buf[4096]; ssize_t n;
  // The case normally finishes in milliseconds.  If nothing has been heard for 3 s, look at the child: when EVERY thread of it sleeps (state
  // S) inside a futex wait, in two looks one second apart, nobody holds the scheduler's baton and nobody ever will - a library call blocked on
  // something outside the scheduler's model, or a thread was lost: the finite program cannot finish.  A starved machine shows runnable
  // threads (state R) instead and decides nothing.
  auto all_parked = [&]() -> string {
    string sig; char dn[64]; snprintf(dn, sizeof dn, "/proc/%d/task", (int)pid);
    DIR *d = opendir(dn); if (!d) return "";
    int nthreads = 0; bool ok = true;
    while (struct dirent *e = readdir(d)) {
      if (e->d_name[0] == '.') continue;
      nthreads++;
      char fn[128]; snprintf(fn, sizeof fn, "/proc/%d/task/%s/stat", (int)pid, e->d_name);
      FILE *f = fopen(fn, "r"); char sb[512] = {0}; if (f) { size_t r = fread(sb, 1, sizeof sb - 1, f); (void)r; fclose(f); }
      const char *rp = strrchr(sb, ')'); char state = rp && rp[1] == ' ' ? rp[2] : '?';
      snprintf(fn, sizeof fn, "/proc/%d/task/%s/syscall", (int)pid, e->d_name);
      f = fopen(fn, "r"); char sc[256] = {0}; if (f) { size_t r = fread(sc, 1, sizeof sc - 1, f); (void)r; fclose(f); }
      if (state != 'S' || strncmp(sc, "202 ", 4) != 0) ok = false;
      sig += string(e->d_name) + ":" + sc;
    }
    closedir(d);
    return ok && nthreads >= 1 ? sig : "";
  };
  int quiet_ms = 0; string parked_sig; bool parked_verdict = false;
  for (;;) {
    struct pollfd pp = {pfd[0], POLLIN, 0};
    int pr = poll(&pp, 1, 500);
    if (pr > 0) { n = read(pfd[0], buf, sizeof buf); if (n <= 0) break; out.append(buf, (size_t)n); quiet_ms = 0; parked_sig.clear(); continue; }
    quiet_ms += 500;
    if (quiet_ms >= 3000 && quiet_ms % 1000 == 0) {
      string sg = all_parked();
      if (!sg.empty() && sg == parked_sig) { parked_verdict = true; kill(pid, SIGKILL); break; }
      parked_sig = sg;
    }
  }
  close(pfd[0]);
  int st = 0; waitpid(pid, &st, 0);
  if (parked_verdict) {
    bool decided = false; for (auto &l : vl::split_lines(out)) if (l.rfind("RESULT ", 0) == 0) decided = true;
    if (!decided) { o.klass = "all-threads-parked"; o.verdict = "every thread of the program sleeps in a futex wait and none holds the scheduler's baton (two looks one second apart): the finite program cannot finish - a library call blocks on something no other thread will provide, or a thread was lost"; return o; }
  }
  if (getenv("VS_DEBUG")) fputs(out.c_str(), stderr);
  bool got = false;
  for (auto &l : vl::split_lines(out)) {
    if (l.rfind("STAT ", 0) == 0) { auto w = vl::split_ws(l); if (w.size() >= 3) o.stats[w[1]] = atol(w[2].c_str()); }
    else if (l.rfind("RESULT ok", 0) == 0) { auto w = vl::split_ws(l); got = true; if (w.size() >= 4) { o.nontrivial = atol(w[2].c_str()) != 0; o.fp = strtoull(w[3].c_str(), 0, 10); } }
    else if (l.rfind("RESULT fail ", 0) == 0 && !got) { got = true; string rest = l.substr(12); size_t sp = rest.find(' '); o.klass = rest.substr(0, sp); o.verdict = sp == string::npos ? rest : rest.substr(sp + 1); }
  }
  if (!got) {
    if (WIFSIGNALED(st) && WTERMSIG(st) == SIGALRM) { o.inconclusive = true; return o; }
    o.klass = "crash"; o.verdict = "case process died without a result (" + (WIFSIGNALED(st) ? "signal " + std::to_string(WTERMSIG(st)) : "exit " + std::to_string(WEXITSTATUS(st))) + "): " + out.substr(0, 300);
  }
  if (o.klass.rfind("inconclusive", 0) == 0) { o.inconclusive = true; o.verdict.clear(); o.klass.clear(); }
  if (o.klass == "harness" || o.klass == "model-misuse") { /* keep: these point at a harness/model problem and must be looked at */ }
  return o;
}

// ---- generators --------------------------------------------------------------------------------------
rc::Gen<int> rng(int lo, int hi) { return rc::gen::resize(100, rc::gen::inRange(lo, hi)); }
rc::Gen<vector<uint8_t>> genSchedule() {
  using namespace rc;
  // mostly zeros (few preemptions) with bursts; shrinks towards all-zero
  auto byte = gen::weightedOneOf<int>({{6, gen::just(0)}, {3, rng(1, 4)}, {1, rng(0, 256)}});
  return gen::map(gen::container<vector<int>>(byte), [](const vector<int> &v) { vector<uint8_t> s; for (int x : v) s.push_back((uint8_t)x); return s; });
}
rc::Gen<vector<uint8_t>> genScheduleLong() { return rc::gen::scale(4.0, genSchedule()); }

rc::Gen<Case> genC01() {
  using namespace rc;
  return gen::mapcat(gen::tuple(rng(2, 5), rng(1, 4)), [](const std::tuple<int, int> &t) {
    int T = std::get<0>(t), L = std::get<1>(t);
    auto round = gen::map(gen::tuple(gen::weightedElement<char>({{6, 'l'}, {3, 't'}, {1, 'y'}}), rng(0, L), rng(1, 3), rng(0, 4), rng(0, L), rng(1, 3)), [](const std::tuple<char, int, int, int, int, int> &r) {
      Round x; x.mode = std::get<0>(r); x.lock = std::get<1>(r); x.work = std::get<2>(r); x.has_inner = std::get<3>(r) == 0 && x.mode != 'y'; x.inner_lock = std::get<4>(r); x.inner_work = std::get<5>(r); return x; });   // inner == lock: the holder tries its own lock
    auto thread = gen::resize(6, gen::container<vector<Round>>(round));
    return gen::map(gen::tuple(gen::container<vector<vector<Round>>>((size_t)T, thread), gen::container<vector<char>>((size_t)L, gen::element('m', 's', 'm', 's', 'S')), genScheduleLong()),
                    [](const std::tuple<vector<vector<Round>>, vector<char>, vector<uint8_t>> &x) { Case c; c.prop = "C01"; c.threads = std::get<0>(x); c.objs = std::get<1>(x); c.sched = std::get<2>(x); return c; });
  });
}
rc::Gen<Case> genC02() {
  using namespace rc;
  return gen::mapcat(gen::tuple(rng(2, 5), rng(1, 3), rng(0, 3)), [](const std::tuple<int, int, int> &t) {
    int T = std::get<0>(t), L = std::get<1>(t); bool spur = std::get<2>(t) != 0;
    auto round = gen::map(gen::tuple(gen::weightedElement<char>({{5, 'r'}, {2, 'R'}, {5, 'x'}, {2, 'X'}}), rng(0, L), rng(0, 3)), [](const std::tuple<char, int, int> &r) { Round x; x.mode = std::get<0>(r); x.lock = std::get<1>(r); x.work = std::get<2>(r); return x; });
    auto thread = gen::resize(5, gen::container<vector<Round>>(round));
    return gen::map(gen::tuple(gen::container<vector<vector<Round>>>((size_t)T, thread), genScheduleLong(), rng(0, 4), rng(0, 3)),
                    [L, spur](const std::tuple<vector<vector<Round>>, vector<uint8_t>, int, int> &x) {
                      Case c; c.prop = "C02"; c.threads = std::get<0>(x); c.sched = std::get<1>(x); c.objs.assign((size_t)L, 'w'); c.spurious = spur; c.budget = std::get<2>(x);
                      // optionally turn the program into a rendezvous program: a lock without writers gets a barrier among its blocking readers
                      if (std::get<3>(x) == 0) {
                        for (int l = 0; l < L; l++) {
                          bool has_writer = false; int readers = 0;
                          for (auto &t : c.threads) { bool counted = false; for (auto &r : t) { if (r.lock != l) continue; if (r.mode == 'x' || r.mode == 'X') has_writer = true; if (r.mode == 'r' && !counted) { readers++; counted = true; } } }
                          // at most ONE rendezvous per program: two barriers taken in different orders by two threads would deadlock the harness itself
                          if (!has_writer && readers >= 2) { for (auto &t : c.threads) for (auto &r : t) if (r.lock == l && r.mode == 'r') { r.barrier = l; break; } break; }
                        }
                      }
                      return c; });
  });
}
rc::Gen<Case> genC03() {
  using namespace rc;
  auto bb = gen::map(gen::tuple(rng(1, 4), rng(1, 4), rng(1, 4), rng(1, 4), gen::element('s', 'b'), gen::element('s', 'b'), rng(0, 2)), [](const std::tuple<int, int, int, int, char, char, int> &t) {
    std::ostringstream os; int cons = std::get<3>(t);
    // signal (rather than broadcast) is only correct here when a single kind of waiter sits on each condition variable - true for this program
    os << "bb cap=" << std::get<0>(t) << " prod=" << std::get<1>(t) << " items=" << std::get<2>(t) << " cons=" << cons << " ne=" << std::get<4>(t) << " nf=" << std::get<5>(t) << " out=" << std::get<6>(t) << " try=" << ((std::get<0>(t) + std::get<1>(t) + std::get<2>(t)) % 3 == 0 ? 1 : 0);
    return os.str(); });
  auto gate = gen::map(gen::tuple(rng(2, 5), gen::element('b', 's', 'm', 'M'), rng(0, 2), rng(1, 4)), [](const std::tuple<int, char, int, int> &t) { std::ostringstream os; os << "gate waiters=" << std::get<0>(t) << " gate=" << std::get<1>(t) << " out=" << std::get<2>(t) << " phases=" << std::get<3>(t) << " try=" << ((std::get<0>(t) + std::get<3>(t)) % 2); return os.str(); });
  auto pp = gen::map(gen::tuple(rng(2, 4), rng(1, 4), gen::element('b', 's'), rng(0, 2), rng(0, 2)), [](const std::tuple<int, int, char, int, int> &t) { std::ostringstream os; os << "pp waiters=" << std::get<0>(t) << " items=" << std::get<1>(t) << " gate=" << std::get<2>(t) << " out=" << std::get<3>(t) << " try=" << std::get<4>(t); return os.str(); });
  return gen::map(gen::tuple(gen::weightedOneOf<string>({{3, bb}, {2, gate}, {2, pp}}), genScheduleLong(), rng(0, 3), rng(0, 4)), [](const std::tuple<string, vector<uint8_t>, int, int> &x) {
    Case c; c.prop = "C03"; c.prog = std::get<0>(x); c.sched = std::get<1>(x); c.spurious = std::get<2>(x) != 0; c.budget = std::get<3>(x); return c; });
}
rc::Gen<Case> genC04() {
  using namespace rc;
  auto operand = gen::weightedOneOf<long>({{5, gen::element<long>(0, 1, -1, 2, 7, INT_MAX, INT_MIN, 0x7FFFFFF0, 0xFF, 0xFFFF0000L, 0x80000000L, 0x100000000L, 0x1FFFFFFFFL, LONG_MAX, LONG_MIN, -0x80000001L, 0x7FFFFFFF00000000L)}, {2, gen::map(rng(-1000, 1000), [](int v) { return (long)v; })}});
  auto op = gen::map(gen::tuple(gen::weightedElement<char>({{3, 'i'}, {3, 'd'}, {4, 'a'}, {2, 'n'}, {2, 'o'}, {2, 'x'}, {3, 'c'}, {2, 'g'}, {2, 's'}}), operand, operand), [](const std::tuple<char, long, long> &t) {
    std::ostringstream os; char k = std::get<0>(t); os << k;
    if (k == 'c') os << std::get<1>(t) << ',' << std::get<2>(t); else if (k != 'i' && k != 'd' && k != 'g') os << std::get<1>(t);
    return os.str(); });
  auto thread = gen::map(gen::resize(4, gen::container<vector<string>>(op)), [](const vector<string> &v) { string s = "|"; for (auto &x : v) s += " " + x; return s; });
  return gen::map(gen::tuple(gen::element<string>("int", "int", "ptr"), gen::element<long>(0, 1, 2, 3, -1, INT_MAX, INT_MIN), rng(2, 4), gen::container<vector<string>>(3, thread), genScheduleLong()),
                  [](const std::tuple<string, long, int, vector<string>, vector<uint8_t>> &x) {
                    Case c; c.prop = "C04";
                    std::ostringstream os; os << std::get<0>(x) << " init=" << std::get<1>(x);
                    int T = std::get<2>(x);
                    for (int i = 0; i < T && i < 3; i++) os << ' ' << std::get<3>(x)[(size_t)i];
                    c.prog = os.str(); c.sched = std::get<4>(x); return c; });
}
rc::Gen<Case> genC05() {
  using namespace rc;
  auto top = gen::map(gen::tuple(gen::weightedElement<char>({{4, 's'}, {4, 'r'}, {2, 'g'}, {1, 'c'}, {1, 'R'}, {1, 'y'}}), rng(0, 3), rng(0, 2)), [](const std::tuple<char, int, int> &t) {
    std::ostringstream os; char k = std::get<0>(t); os << k; if (k == 's' || k == 'r') os << std::get<1>(t) << ',' << std::get<2>(t); else if (k == 'g') os << std::get<1>(t); return os.str(); });
  auto thr = gen::map(gen::tuple(rng(0, 3), rng(0, 3), rng(0, 3), gen::element(0, 1, -1, 7, INT_MAX, INT_MIN, 255, 256), gen::resize(5, gen::container<vector<string>>(top))), [](const std::tuple<int, int, int, int, vector<string>> &t) {
    std::ostringstream os; os << "t " << (std::get<0>(t) != 0 ? 1 : 0) << ' ' << std::get<1>(t) << ' ';
    if (std::get<2>(t) == 0) os << "r"; else os << "e" << std::get<3>(t);
    for (auto &o : std::get<4>(t)) os << ' ' << o;
    return os.str(); });
  auto mop = gen::map(gen::tuple(gen::weightedElement<char>({{3, 'j'}, {4, 'u'}, {2, 'f'}, {1, 'y'}}), rng(0, 4)), [](const std::tuple<char, int> &t) { std::ostringstream os; os << std::get<0>(t) << std::get<1>(t); return os.str(); });
  return gen::map(gen::tuple(rng(1, 4), gen::container<vector<string>>(3, thr), gen::resize(6, gen::container<vector<string>>(mop)), gen::element<string>("1", "0", "11", "10", "101", "1f", "11f", "10f"), genScheduleLong()),
                  [](const std::tuple<int, vector<string>, vector<string>, string, vector<uint8_t>> &x) {
                    Case c; c.prop = "C05";
                    std::ostringstream os; os << "keys=" << std::get<3>(x);
                    for (int i = 0; i < std::get<0>(x) && i < 3; i++) os << " | " << std::get<1>(x)[(size_t)i];
                    os << " | m"; for (auto &o : std::get<2>(x)) os << ' ' << o;
                    c.prog = os.str(); c.sched = std::get<4>(x); return c; });
}

int g_failed = 0;
void exec(const string &sub, const Case &c, bool rc_mode) {
  string text = to_text(c);
  vl::set_current_case(sub.c_str(), text);
  Outcome o = run_case_forked(c);
  if (o.inconclusive) { vl::stats().count("inconclusive_cases"); return; }
  vl::stats().record(text, o.nontrivial, o.fp ? o.fp : vl::fnv1a(text));
  for (auto &kv : o.stats) if (kv.second > 0) vl::stats().klass("cases_with_" + kv.first);
  if (!o.verdict.empty()) {
    vl::report_failure(sub, text, (g_as_c20 ? string("C20") : c.prop) + ":" + o.klass + ": " + o.verdict, o.klass);
    if (rc_mode) RC_FAIL(o.verdict);
    g_failed++;
  }
}

// bounded-exhaustive: all schedules with <= maxp preemptions (non-zero choices) over the first `horizon` points, for fixed shaped programs
void exhaustive(const string &prop, const vector<Case> &shapes, int horizon, int maxp, long shard, long nshards) {
  long idx = 0;
  for (const Case &base : shapes) {
    // positions of non-zero choices: combinations of <= maxp positions in [0,horizon), values 1..2
    vector<int> pos;
    std::function<void(int, int)> rec = [&](int start, int left) {
      if ((idx++ % nshards) == shard) {
        // enumerate values 1..2 for each chosen position
        int k = (int)pos.size();
        for (int mask = 0; mask < (1 << k); mask++) {
          Case c = base; c.sched.assign((size_t)horizon, 0);
          for (int i = 0; i < k; i++) c.sched[(size_t)pos[(size_t)i]] = (uint8_t)(1 + ((mask >> i) & 1));
          exec("exh", c, false);
          if (g_failed) return;
        }
      }
      if (left == 0) return;
      for (int p = start; p < horizon; p++) { pos.push_back(p); rec(p + 1, left - 1); pos.pop_back(); if (g_failed) return; }
    };
    rec(0, maxp);
    if (g_failed) return;
  }
  vl::stats().exhaustive[prop + "_all_schedules_with_<=" + std::to_string(maxp) + "_preemptions_in_first_" + std::to_string(horizon) + "_points_of_" + std::to_string(shapes.size()) + "_shaped_programs"] = true;
}
Case shape(const string &text) { Case c; from_text(text, c); return c; }

vector<Case> shapes_for(const string &prop) {
  vector<Case> v;
  if (prop == "C01") {
    v.push_back(shape("dsched C01\nobj m\nT l0.1.- l0.1.-\nT l0.1.- t0.1.-\n"));
    v.push_back(shape("dsched C01\nobj s\nT l0.1.- l0.1.-\nT l0.1.- t0.1.-\n"));
    v.push_back(shape("dsched C01\nobj m s\nT l0.1.-+t1.1 l1.1.-\nT l1.1.-+t0.1 t0.1.-\n"));
    v.push_back(shape("dsched C01\nobj s\nT t0.1.- t0.1.-\nT l0.2.-\nT t0.1.-\n"));
    v.push_back(shape("dsched C01\nobj S\nT l0.1.- t0.1.-\nT t0.1.- l0.1.-\n"));
  } else if (prop == "C02") {
    v.push_back(shape("dsched C02\nobj w\nT x0.1.-\nT r0.1.-\nT r0.1.-\n"));
    v.push_back(shape("dsched C02\nobj w\nT x0.1.- x0.1.-\nT x0.1.-\nT r0.1.-\n"));
    v.push_back(shape("dsched C02\nobj w\nT r0.1.- x0.1.-\nT x0.1.- r0.1.-\n"));
    v.push_back(shape("dsched C02\nobj w\nT r0.0.0\nT r0.0.0\n"));
    v.push_back(shape("dsched C02\nobj w\nT X0.1.- R0.1.-\nT x0.1.-\nT r0.1.-\n"));
    v.push_back(shape("dsched C02\nopt spurious=1 budget=2\nobj w\nT x0.1.-\nT r0.1.-\nT x0.1.-\n"));
  } else if (prop == "C03") {
    for (const char *p : {"bb cap=1 prod=1 items=2 cons=1 ne=s nf=s", "bb cap=1 prod=2 items=1 cons=2 ne=s nf=s", "bb cap=2 prod=1 items=3 cons=2 ne=b nf=s", "bb cap=1 prod=2 items=1 cons=2 ne=b nf=b out=1", "bb cap=2 prod=2 items=2 cons=2 ne=s nf=s out=1", "gate waiters=2 gate=b", "gate waiters=3 gate=b out=1", "gate waiters=2 gate=s phases=2", "gate waiters=2 gate=b try=1", "pp waiters=2 items=2 gate=s", "pp waiters=3 items=1 gate=b", "gate waiters=3 gate=m", "gate waiters=4 gate=m out=1"}) {
      Case c; c.prop = "C03"; c.prog = p; v.push_back(c);
      Case d = c; d.spurious = true; d.budget = 2; v.push_back(d);
    }
  } else if (prop == "C04") {
    for (const char *p : {"int init=0 | a1 a1 | a1 a1", "int init=2 | d d | d", "int init=0 | c0,1 | c0,2 | g", "int init=2147483647 | i | a1 | g", "ptr init=0 | o1 | o2 | x3", "int init=1 | d | i d"}) { Case c; c.prop = "C04"; c.prog = p; v.push_back(c); }
  } else if (prop == "C05") {
    for (const char *p : {"keys=1 | t 1 0 r s0,1 | m u0", "keys=1 | t 1 1 e7 s0,1 r0,1 | m j0 u0", "keys=1 | t 0 0 r s0,1 | m u0", "keys=10 | t 1 2 e-1 s0,1 s1,1 | t 0 0 r r0,1 | m f0 u0 j0 u0 u1", "keys=11f | t 1 0 r s0,1 r1,1 | t 0 1 e3 s1,1 | m u1 j0"}) { Case c; c.prop = "C05"; c.prog = p; v.push_back(c); }
  }
  return v;
}

int run_generated() {
  string prop = vl::env("VERIF_PROP", "C01");
  if (prop == "C20") prop = "C05";
  bool thorough = vl::env("VERIF_TIER", "quick") == "thorough";
  long shard = vl::envl("VERIF_SHARD", 0), nshards = vl::envl("VERIF_NSHARDS", 1);
  string sub = vl::env("VERIF_SUB", "all");
  if (sub == "all" || sub == "exh") {
    exhaustive(prop, shapes_for(prop), thorough ? 40 : 28, thorough ? 3 : 2, shard, nshards);
    if (g_failed) return g_failed;
  }
  if (sub == "all" || sub == "rand") {
    bool ok = rc::check("dsched generated programs", [&] {
      Case c = prop == "C01" ? *genC01() : prop == "C02" ? *genC02() : prop == "C03" ? *genC03() : prop == "C04" ? *genC04() : *genC05();
      exec("rand", c, true);
    });
    if (!ok) g_failed++;
  }
  return g_failed;
}
string run_replay(const string &text) {
  Case c;
  if (!from_text(text, c)) return "unparsable case";
  Outcome o = run_case_forked(c);
  if (o.inconclusive) { printf("INCONCLUSIVE\n"); return ""; }
  return o.verdict.empty() ? "" : (g_as_c20 ? string("C20") : c.prop) + ":" + o.klass + ": " + o.verdict;
}
} // namespace

int main(int argc, char **argv) {
  PMemVTable t; t.f_malloc = va::v_malloc; t.f_realloc = va::v_realloc; t.f_free = va::v_free;
  p_libsys_init_full(&t);
  g_as_c20 = vl::env("VERIF_PROP", "") == "C20";
  return vl::harness_main(argc, argv, run_generated, run_replay);
}
