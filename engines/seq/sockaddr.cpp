// sockaddr.cpp - round-trip / platform-differential harness for PSocketAddress (C17).
//
// Case format (one case per file, first token = kind):
//   n4 <addr hex 8> <port> <family> <len> <destlen>
//   n6 <addr hex 32> <port> <flow> <scope> <family> <len> <destlen> <setflow> <setscope>
//   s  <string hex> <port>
//   a  <family 2|10|other> <port> <loopback 0|1>
#include <rapidcheck.h>
#include "../../vlib/vlib.h"
#include <arpa/inet.h>
#include <netinet/in.h>
#include <sys/socket.h>
#include <netdb.h>
extern "C" {
#include <plibsys.h>
}
using std::string;
using std::vector;

namespace {

struct Case {
  char kind = 's';      // '4' n4, '6' n6, 's', 'a'
  string addr;          // raw bytes (4 or 16) or the string
  unsigned port = 0, flow = 0, scope = 0, setflow = 0, setscope = 0;
  int family = AF_INET, len = 16, destlen = 16, loopback = 0;
};

string to_text(const Case &c) {
  std::ostringstream os;
  switch (c.kind) {
  case '4': os << "n4 " << vl::hex(c.addr) << ' ' << c.port << ' ' << c.family << ' ' << c.len << ' ' << c.destlen; break;
  case '6': os << "n6 " << vl::hex(c.addr) << ' ' << c.port << ' ' << c.flow << ' ' << c.scope << ' ' << c.family << ' ' << c.len << ' ' << c.destlen << ' ' << c.setflow << ' ' << c.setscope; break;
  case 's': os << "s " << (c.addr.empty() ? "-" : vl::hex(c.addr)) << ' ' << c.port; break;
  default: os << "a " << c.family << ' ' << c.port << ' ' << c.loopback; break;
  }
  os << "\n";
  if (c.kind == 's') { os << "# string: "; for (unsigned char ch : c.addr) os << (ch >= 32 && ch < 127 ? (char)ch : '?'); os << "\n"; }
  return os.str();
}
bool from_text(const string &t, Case &c) {
  auto lines = vl::split_lines(t);
  for (auto &l : lines) {
    auto w = vl::split_ws(l);
    if (w.empty() || w[0][0] == '#') continue;
    if (w[0] == "n4" && w.size() >= 6) { c.kind = '4'; c.addr = vl::unhex(w[1]); c.port = atoi(w[2].c_str()); c.family = atoi(w[3].c_str()); c.len = atoi(w[4].c_str()); c.destlen = atoi(w[5].c_str()); return c.addr.size() == 4; }
    if (w[0] == "n6" && w.size() >= 10) { c.kind = '6'; c.addr = vl::unhex(w[1]); c.port = atoi(w[2].c_str()); c.flow = strtoul(w[3].c_str(), 0, 10); c.scope = strtoul(w[4].c_str(), 0, 10); c.family = atoi(w[5].c_str()); c.len = atoi(w[6].c_str()); c.destlen = atoi(w[7].c_str()); c.setflow = strtoul(w[8].c_str(), 0, 10); c.setscope = strtoul(w[9].c_str(), 0, 10); return c.addr.size() == 16; }
    if (w[0] == "s" && w.size() >= 3) { c.kind = 's'; c.addr = w[1] == "-" ? "" : vl::unhex(w[1]); c.port = atoi(w[2].c_str()); return true; }
    if (w[0] == "a" && w.size() >= 4) { c.kind = 'a'; c.family = atoi(w[1].c_str()); c.port = atoi(w[2].c_str()); c.loopback = atoi(w[3].c_str()); return true; }
  }
  return false;
}
void showValue(const Case &c, std::ostream &os) { os << to_text(c); }

struct Outcome { string verdict, klass; bool nontrivial = false; uint64_t fp = 0; };

bool v4_is_loopback(const unsigned char *b) { return b[0] == 127; }
bool v4_is_any(const unsigned char *b) { return b[0] == 0 && b[1] == 0 && b[2] == 0 && b[3] == 0; }
bool v6_is_any(const unsigned char *b) { for (int i = 0; i < 16; i++) if (b[i]) return false; return true; }
bool v6_is_loopback(const unsigned char *b) { for (int i = 0; i < 15; i++) if (b[i]) return false; return b[15] == 1; }

// exact-size heap copy so ASan sees any access beyond len
struct Exact {
  unsigned char *p;
  size_t n;
  Exact(size_t n_) : n(n_) { p = (unsigned char *)malloc(n ? n : 1); }
  ~Exact() { free(p); }
};

// checks every getter of `a` against the expected (family, bytes, port, flow, scope); then to_native with destlen
void check_addr(Outcome &out, PSocketAddress *a, int fam, const unsigned char *bytes, unsigned port, unsigned flow, unsigned scope, int destlen) {
  auto fail = [&](const string &k, const string &m) { if (out.verdict.empty()) { out.verdict = m; out.klass = k; } };
  PSocketFamily pf = p_socket_address_get_family(a);
  if ((fam == AF_INET && pf != P_SOCKET_FAMILY_INET) || (fam == AF_INET6 && pf != P_SOCKET_FAMILY_INET6)) { fail("family", "get_family mismatch"); return; }
  if (p_socket_address_get_port(a) != port) { fail("port", "get_port=" + std::to_string(p_socket_address_get_port(a)) + " expected " + std::to_string(port)); return; }
  size_t nsz = fam == AF_INET ? sizeof(sockaddr_in) : sizeof(sockaddr_in6);
  if (p_socket_address_get_native_size(a) != nsz) { fail("native-size", "get_native_size mismatch"); return; }
  char want[INET6_ADDRSTRLEN + 1];
  inet_ntop(fam, bytes, want, sizeof want);
  pchar *txt = p_socket_address_get_address(a);
  if (!txt || strcmp(txt, want) != 0) { fail("text", string("get_address='") + (txt ? txt : "(null)") + "' platform inet_ntop='" + want + "'"); p_free(txt); return; }
  bool any = fam == AF_INET ? v4_is_any(bytes) : v6_is_any(bytes);
  bool loop = fam == AF_INET ? v4_is_loopback(bytes) : v6_is_loopback(bytes);
  if ((p_socket_address_is_any(a) == TRUE) != any) { fail("is-any", string("is_any wrong for ") + want); p_free(txt); return; }
  if ((p_socket_address_is_loopback(a) == TRUE) != loop) { fail("is-loopback", string("is_loopback wrong for ") + want); p_free(txt); return; }
  if (fam == AF_INET6) {
    if (p_socket_address_get_flow_info(a) != flow) { fail("flow", "get_flow_info mismatch"); p_free(txt); return; }
    if (p_socket_address_get_scope_id(a) != scope) { fail("scope", "get_scope_id mismatch"); p_free(txt); return; }
  } else {
    if (p_socket_address_get_flow_info(a) != 0 || p_socket_address_get_scope_id(a) != 0) { fail("flow", "IPv4 address reports flow/scope"); p_free(txt); return; }
  }
  // text -> address -> same bytes (round trip through text)
  PSocketAddress *b = p_socket_address_new(txt, (puint16)port);
  if (!b) { fail("text-roundtrip", string("p_socket_address_new rejects its own text form '") + txt + "'"); p_free(txt); return; }
  {
    unsigned char img[sizeof(sockaddr_in6)];
    memset(img, 0, sizeof img);
    if (!p_socket_address_to_native(b, img, sizeof img)) fail("text-roundtrip", "to_native of re-parsed text failed");
    else if (fam == AF_INET ? memcmp(&((sockaddr_in *)img)->sin_addr, bytes, 4) : memcmp(&((sockaddr_in6 *)img)->sin6_addr, bytes, 16)) fail("text-roundtrip", string("text form '") + txt + "' parses to a different address");
    else if (p_socket_address_get_port(b) != port) fail("text-roundtrip", "port lost through p_socket_address_new");
  }
  p_socket_address_free(b);
  p_free(txt);
  if (!out.verdict.empty()) return;
  // to_native with an exact-size destination
  if (destlen < 0) destlen = 0;
  Exact d((size_t)destlen);
  memset(d.p, 0xA5, d.n ? d.n : 1);
  pboolean ok = p_socket_address_to_native(a, d.p, (psize)destlen);
  bool should = (size_t)destlen >= nsz;
  if ((ok == TRUE) != should) { fail("to-native-size", "to_native(destlen=" + std::to_string(destlen) + ") returned " + (ok ? "TRUE" : "FALSE") + ", structure needs " + std::to_string(nsz)); return; }
  if (!should) {
    for (size_t i = 0; i < d.n; i++) if (d.p[i] != 0xA5) { fail("to-native-write", "to_native failed but wrote into the destination"); return; }
  } else {
    if (fam == AF_INET) {
      sockaddr_in w; memset(&w, 0, sizeof w);
      w.sin_family = AF_INET; w.sin_port = htons((uint16_t)port); memcpy(&w.sin_addr, bytes, 4);
      if (memcmp(d.p, &w, sizeof w)) { fail("to-native-bytes", "IPv4 native image differs (family/port/address/sin_zero)"); return; }
    } else {
      sockaddr_in6 *g = (sockaddr_in6 *)d.p;
      if (g->sin6_family != AF_INET6 || g->sin6_port != htons((uint16_t)port) || memcmp(&g->sin6_addr, bytes, 16) || g->sin6_flowinfo != flow || g->sin6_scope_id != scope) { fail("to-native-bytes", "IPv6 native image differs (family/port/address/flow/scope)"); return; }
    }
    for (size_t i = nsz; i < d.n; i++) if (d.p[i] != 0xA5) { fail("to-native-write", "to_native wrote beyond the native structure"); return; }
  }
}

Outcome run_case(const Case &c) {
  Outcome out;
  auto fail = [&](const string &k, const string &m) { if (out.verdict.empty()) { out.verdict = m; out.klass = k; } };
  out.fp = vl::fnv1a(to_text(c));
  if (c.kind == '4' || c.kind == '6') {
    unsigned char img[sizeof(sockaddr_storage) + 16];
    memset(img, 0, sizeof img);
    size_t nsz;
    if (c.kind == '4') {
      sockaddr_in *s = (sockaddr_in *)img;
      s->sin_family = (sa_family_t)c.family; s->sin_port = htons((uint16_t)c.port); memcpy(&s->sin_addr, c.addr.data(), 4);
      memset(s->sin_zero, 0x5A, sizeof s->sin_zero); // garbage in padding must not matter
      nsz = sizeof(sockaddr_in);
    } else {
      sockaddr_in6 *s = (sockaddr_in6 *)img;
      s->sin6_family = (sa_family_t)c.family; s->sin6_port = htons((uint16_t)c.port); memcpy(&s->sin6_addr, c.addr.data(), 16);
      s->sin6_flowinfo = c.flow; s->sin6_scope_id = c.scope;
      nsz = sizeof(sockaddr_in6);
    }
    (void)nsz;
    int len = c.len < 0 ? 0 : (c.len > (int)sizeof img ? (int)sizeof img : c.len);
    if (len == 1 && vl::excluded("native-len-1")) { vl::stats().count("excluded_native_len_1"); return out; }
    Exact src((size_t)len);
    memcpy(src.p, img, (size_t)len);
    PSocketAddress *a = p_socket_address_new_from_native(len == 0 ? (pconstpointer)src.p : (pconstpointer)src.p, (psize)len);
    int fam = c.family;
    size_t need = fam == AF_INET ? sizeof(sockaddr_in) : fam == AF_INET6 ? sizeof(sockaddr_in6) : (size_t)-1;
    bool should = len >= 2 && need != (size_t)-1 && (size_t)len >= need;
    vl::stats().klass(string("native_") + (fam == AF_INET ? "v4" : fam == AF_INET6 ? "v6" : "otherfam") + (should ? "_ok" : "_reject"));
    if ((a != NULL) != should) {
      fail("from-native-size", string("new_from_native(len=") + std::to_string(len) + ", family=" + std::to_string(fam) + ") " + (a ? "succeeded" : "failed") + " but should " + (should ? "succeed" : "fail"));
      if (a) p_socket_address_free(a);
      return out;
    }
    int d = std::abs(len - (int)sizeof(sockaddr_in)), d6 = std::abs(len - (int)sizeof(sockaddr_in6));
    bool near = d <= 2 || d6 <= 2 || len <= 2;
    if (!a) { out.nontrivial = near; return out; }
    // note: when family says v4 but the image was built as v6 (or vice versa) the bytes are still defined by img
    const unsigned char *bytes = fam == AF_INET ? (const unsigned char *)&((sockaddr_in *)img)->sin_addr : (const unsigned char *)&((sockaddr_in6 *)img)->sin6_addr;
    unsigned port = ntohs(((sockaddr_in *)img)->sin_port);
    unsigned flow = fam == AF_INET6 ? ((sockaddr_in6 *)img)->sin6_flowinfo : 0, scope = fam == AF_INET6 ? ((sockaddr_in6 *)img)->sin6_scope_id : 0;
    check_addr(out, a, fam, bytes, port, flow, scope, c.destlen);
    if (out.verdict.empty() && c.kind == '6') {
      p_socket_address_set_flow_info(a, c.setflow);
      p_socket_address_set_scope_id(a, c.setscope);
      if (fam == AF_INET6) check_addr(out, a, fam, bytes, port, c.setflow, c.setscope, (int)sizeof(sockaddr_in6));
      else check_addr(out, a, fam, bytes, port, 0, 0, (int)sizeof(sockaddr_in));
    }
    p_socket_address_free(a);
    bool zero_run = false;
    if (fam == AF_INET6) for (int i = 0; i < 15; i++) if (!bytes[i] && !bytes[i + 1]) zero_run = true;
    out.nontrivial = near || (fam == AF_INET6 && (zero_run || flow || scope)) || (fam == AF_INET && (bytes[0] == 0 || bytes[0] == 127 || bytes[0] == 126 || bytes[0] == 128 || bytes[0] == 255 || bytes[3] == 127));
    return out;
  }
  if (c.kind == 's') {
    // embedded NULs: the API takes a C string; cut at the first NUL like any caller would
    string s = c.addr.substr(0, c.addr.find('\0'));
    unsigned char b4[4], b6[16];
    bool p4 = inet_pton(AF_INET, s.c_str(), b4) > 0;
    bool p6 = inet_pton(AF_INET6, s.c_str(), b6) > 0;
    bool colon = s.find(':') != string::npos;
    unsigned scope = 0;
    bool g6 = false;
    if (colon) {
      addrinfo hints; memset(&hints, 0, sizeof hints);
      hints.ai_family = AF_UNSPEC; hints.ai_socktype = SOCK_STREAM; hints.ai_flags = AI_NUMERICHOST;
      addrinfo *res = nullptr;
      if (getaddrinfo(s.c_str(), NULL, &hints, &res) == 0 && res) {
        if (res->ai_family == AF_INET6) { g6 = true; memcpy(b6, &((sockaddr_in6 *)res->ai_addr)->sin6_addr, 16); scope = ((sockaddr_in6 *)res->ai_addr)->sin6_scope_id; }
        freeaddrinfo(res);
      }
    }
    bool accept = p4 || p6 || g6;
    PSocketAddress *a = p_socket_address_new(s.c_str(), (puint16)c.port);
    vl::stats().klass(accept ? (p4 ? "string_v4_accept" : "string_v6_accept") : "string_reject");
    if ((a != NULL) != accept) {
      fail("text-accept", string("p_socket_address_new('") + s + "') " + (a ? "succeeded" : "failed") + " but the platform " + (accept ? "accepts" : "rejects") + " it as a numeric address");
      if (a) p_socket_address_free(a);
      return out;
    }
    out.nontrivial = (p4 != (p6 || g6)) && accept ? true : (accept && scope != 0) || (!accept && (s.find('.') != string::npos || colon));
    if (!a) return out;
    check_addr(out, a, p4 ? AF_INET : AF_INET6, p4 ? b4 : b6, c.port, 0, p4 ? 0 : scope, p4 ? (int)sizeof(sockaddr_in) : (int)sizeof(sockaddr_in6));
    p_socket_address_free(a);
    return out;
  }
  // 'a'
  PSocketFamily pf = c.family == AF_INET ? P_SOCKET_FAMILY_INET : c.family == AF_INET6 ? P_SOCKET_FAMILY_INET6 : P_SOCKET_FAMILY_UNKNOWN;
  PSocketAddress *a = c.loopback ? p_socket_address_new_loopback(pf, (puint16)c.port) : p_socket_address_new_any(pf, (puint16)c.port);
  bool should = pf != P_SOCKET_FAMILY_UNKNOWN;
  if ((a != NULL) != should) { fail("any-loopback", "new_any/new_loopback result wrong for family"); if (a) p_socket_address_free(a); return out; }
  if (!a) return out;
  unsigned char bytes[16]; memset(bytes, 0, sizeof bytes);
  if (c.loopback) { if (c.family == AF_INET) bytes[0] = 127; else bytes[15] = 1; }
  // note: the library's IPv4 loopback is 127.0.0.0 (documented as "loopback" - in 127/8); we assert classification only
  if (c.loopback && c.family == AF_INET) {
    if (p_socket_address_is_loopback(a) != TRUE) fail("any-loopback", "new_loopback(IPv4) is not classified as loopback");
    if (p_socket_address_get_port(a) != c.port) fail("port", "port mismatch");
  } else check_addr(out, a, c.family, bytes, c.port, 0, 0, (int)sizeof(sockaddr_in6));
  if (out.verdict.empty()) {
    if (c.loopback && p_socket_address_is_loopback(a) != TRUE) fail("any-loopback", "loopback address not classified as loopback");
    if (!c.loopback && p_socket_address_is_any(a) != TRUE) fail("any-loopback", "any address not classified as any");
  }
  p_socket_address_free(a);
  out.nontrivial = true;
  return out;
}

// ---- generators -------------------------------------------------------------------------------
rc::Gen<int> rng(int lo, int hi) { return rc::gen::resize(100, rc::gen::inRange(lo, hi)); }
rc::Gen<unsigned> anyU32() {
  using namespace rc;
  return gen::weightedOneOf<unsigned>({{3, gen::element<unsigned>(0u, 1u, 0xFFFFFFFFu, 0x80000000u, 0x7FFFFFFFu, 0x01020304u, 0xFFu, 0xFF000000u)},
                                       {3, gen::map(gen::resize(100, gen::arbitrary<uint32_t>()), [](uint32_t v) { return (unsigned)v; })}});
}
rc::Gen<unsigned> genPort() {
  using namespace rc;
  return gen::weightedOneOf<unsigned>({{3, gen::element<unsigned>(0u, 1u, 255u, 256u, 0x1234u, 65535u, 80u, 0x0100u, 0x00FFu, 0xFF00u)}, {2, gen::map(rng(0, 65536), [](int v) { return (unsigned)v; })}});
}
rc::Gen<string> genV4Bytes() {
  using namespace rc;
  auto octet = gen::weightedOneOf<int>({{4, gen::element(0, 1, 126, 127, 128, 254, 255)}, {2, rng(0, 256)}});
  return gen::map(gen::tuple(octet, octet, octet, octet), [](const std::tuple<int, int, int, int> &t) {
    string s(4, 0); s[0] = (char)std::get<0>(t); s[1] = (char)std::get<1>(t); s[2] = (char)std::get<2>(t); s[3] = (char)std::get<3>(t); return s; });
}
rc::Gen<string> genV6Bytes() {
  using namespace rc;
  // structured: random bytes with a zero run [a,b), optional v4-mapped / link-local / multicast prefixes
  auto byte = gen::weightedOneOf<int>({{2, gen::element(0, 1, 0xff, 0x80, 0xfe)}, {3, rng(0, 256)}});
  return gen::map(gen::tuple(gen::container<vector<int>>(16, byte), rng(0, 17), rng(0, 17), rng(0, 8)), [](const std::tuple<vector<int>, int, int, int> &t) {
    string s(16, 0);
    for (int i = 0; i < 16; i++) s[i] = (char)std::get<0>(t)[i];
    int a = std::get<1>(t), b = std::get<2>(t);
    if (a > b) std::swap(a, b);
    for (int i = a; i < b; i++) s[i] = 0;
    switch (std::get<3>(t)) {
    case 0: for (int i = 0; i < 10; i++) s[i] = 0; s[10] = s[11] = (char)0xff; break;  // v4-mapped
    case 1: for (int i = 0; i < 12; i++) s[i] = 0; break;                               // v4-compatible
    case 2: s[0] = (char)0xfe; s[1] = (char)0x80; break;                                 // link-local
    case 3: s[0] = (char)0xff; break;                                                    // multicast
    case 4: for (int i = 0; i < 15; i++) s[i] = 0; s[15] = (char)(b & 3); break;          // ::, ::1, ::2, ::3
    default: break;
    }
    return s;
  });
}
rc::Gen<int> genLen() {
  using namespace rc;
  return gen::weightedOneOf<int>({{4, gen::element(0, 1, 2, 3, 14, 15, 16, 17, 18, 26, 27, 28, 29, 30, 36)}, {2, rng(0, (int)sizeof(sockaddr_in6) + 9)}});
}
rc::Gen<int> genFamily(int dflt) {
  using namespace rc;
  return gen::weightedElement<int>({{8, dflt}, {1, AF_INET}, {1, AF_INET6}, {1, AF_UNIX}, {1, 0}, {1, 0xFFFF}});
}
string ntop(int fam, const string &bytes) { char b[INET6_ADDRSTRLEN + 1]; inet_ntop(fam, bytes.data(), b, sizeof b); return b; }

rc::Gen<string> genString() {
  using namespace rc;
  auto canon4 = gen::map(genV4Bytes(), [](const string &b) { return ntop(AF_INET, b); });
  auto canon6 = gen::map(genV6Bytes(), [](const string &b) { return ntop(AF_INET6, b); });
  auto variants6 = gen::map(gen::tuple(genV6Bytes(), rng(0, 6)), [](const std::tuple<string, int> &t) {
    const string &b = std::get<0>(t);
    char buf[128];
    const unsigned char *u = (const unsigned char *)b.data();
    switch (std::get<1>(t)) {
    case 0: snprintf(buf, sizeof buf, "%X:%X:%X:%X:%X:%X:%X:%X", u[0] << 8 | u[1], u[2] << 8 | u[3], u[4] << 8 | u[5], u[6] << 8 | u[7], u[8] << 8 | u[9], u[10] << 8 | u[11], u[12] << 8 | u[13], u[14] << 8 | u[15]); break;
    case 1: snprintf(buf, sizeof buf, "%04x:%04x:%04x:%04x:%04x:%04x:%04x:%04x", u[0] << 8 | u[1], u[2] << 8 | u[3], u[4] << 8 | u[5], u[6] << 8 | u[7], u[8] << 8 | u[9], u[10] << 8 | u[11], u[12] << 8 | u[13], u[14] << 8 | u[15]); break;
    case 2: snprintf(buf, sizeof buf, "%x:%x:%x:%x:%x:%x:%u.%u.%u.%u", u[0] << 8 | u[1], u[2] << 8 | u[3], u[4] << 8 | u[5], u[6] << 8 | u[7], u[8] << 8 | u[9], u[10] << 8 | u[11], u[12], u[13], u[14], u[15]); break;
    case 3: snprintf(buf, sizeof buf, "%s%%lo", ntop(AF_INET6, b).c_str()); break;
    case 4: snprintf(buf, sizeof buf, "%s%%%u", ntop(AF_INET6, b).c_str(), (unsigned)u[3] % 5); break;
    default: snprintf(buf, sizeof buf, "%s%%nosuchif0", ntop(AF_INET6, b).c_str()); break;
    }
    return string(buf);
  });
  auto near = gen::element<string>("256.1.1.1", "1.2.3.4.5", "1.2.3", "1.2.3.", ".1.2.3", "1..2.3", "01.2.3.4", "1.2.3.04", "1.2.3.4 ", " 1.2.3.4", "::1::", ":::", "", " ", "::", "::1", "1::", "::ffff:1.2.3.4",
                                   "::ffff:1.2.3.256", "1:2:3:4:5:6:7", "1:2:3:4:5:6:7:8:9", "12345::", "g::1", "fe80::1%", "fe80::1%lo", "fe80::1%1", "fe80::1%999999", "::1%lo", "127.1", "0x7f.0.0.1", "1.2.3.4:80", "[::1]", "localhost", "::1 ", "1:2:3:4:5:6:1.2.3.4", "::1.2.3.4", ":", ".", "0.0.0.0", "255.255.255.255", "127.0.0.1");
  // mutations of a valid string: delete / duplicate / replace one character
  auto mutated = gen::map(gen::tuple(gen::oneOf(canon4, canon6), rng(0, 64), rng(0, 3), gen::element<char>('.', ':', '0', '9', 'f', 'g', '%', ' ', '1', '/', '\x01')), [](const std::tuple<string, int, int, char> &t) {
    string s = std::get<0>(t);
    if (s.empty()) return s;
    size_t pos = (size_t)std::get<1>(t) % s.size();
    switch (std::get<2>(t)) {
    case 0: s.erase(pos, 1); break;
    case 1: s.insert(pos, 1, std::get<3>(t)); break;
    default: s[pos] = std::get<3>(t); break;
    }
    return s;
  });
  auto junk = gen::map(gen::container<vector<int>>(gen::element<int>('0', '1', '2', '5', '9', 'a', 'f', ':', '.', '%', ' ', 'x', 'l', 'o')), [](const vector<int> &v) { string s; for (int c : v) s += (char)c; return s.substr(0, 60); });
  return gen::weightedOneOf<string>({{4, canon4}, {4, canon6}, {4, variants6}, {3, near}, {5, mutated}, {2, junk}});
}

rc::Gen<Case> genCase() {
  using namespace rc;
  auto n4 = gen::map(gen::tuple(genV4Bytes(), genPort(), genFamily(AF_INET), genLen(), genLen()), [](const std::tuple<string, unsigned, int, int, int> &t) {
    Case c; c.kind = '4'; c.addr = std::get<0>(t); c.port = std::get<1>(t); c.family = std::get<2>(t); c.len = std::get<3>(t); c.destlen = std::get<4>(t); return c; });
  auto n6 = gen::map(gen::tuple(genV6Bytes(), genPort(), anyU32(), anyU32(), genFamily(AF_INET6), genLen(), genLen(), gen::tuple(anyU32(), anyU32())),
                     [](const std::tuple<string, unsigned, unsigned, unsigned, int, int, int, std::tuple<unsigned, unsigned>> &t) {
    Case c; c.kind = '6'; c.addr = std::get<0>(t); c.port = std::get<1>(t); c.flow = std::get<2>(t); c.scope = std::get<3>(t); c.family = std::get<4>(t);
    c.len = std::get<5>(t); c.destlen = std::get<6>(t); c.setflow = std::get<0>(std::get<7>(t)); c.setscope = std::get<1>(std::get<7>(t)); return c; });
  auto s = gen::map(gen::tuple(genString(), genPort()), [](const std::tuple<string, unsigned> &t) { Case c; c.kind = 's'; c.addr = std::get<0>(t); c.port = std::get<1>(t); return c; });
  auto a = gen::map(gen::tuple(gen::element<int>(AF_INET, AF_INET6, 0, AF_UNIX), genPort(), rng(0, 2)), [](const std::tuple<int, unsigned, int> &t) { Case c; c.kind = 'a'; c.family = std::get<0>(t); c.port = std::get<1>(t); c.loopback = std::get<2>(t); return c; });
  return gen::weightedOneOf<Case>({{5, n4}, {5, n6}, {7, s}, {1, a}});
}

int g_failed = 0;
void exec(const string &sub, const Case &c, bool rc_mode) {
  string text = to_text(c);
  vl::set_current_case(sub.c_str(), text);
  Outcome o = run_case(c);
  vl::stats().record(text, o.nontrivial, o.fp);
  if (!o.verdict.empty()) {
    vl::report_failure(sub, text, "C17:" + o.klass + ": " + o.verdict, o.klass);
    if (rc_mode) RC_FAIL(o.verdict);
    g_failed++;
  }
}

// exhaustive boundary grid: boundary v4 addresses x ports x all native lengths x dest lengths
void grid(long shard, long nshards) {
  static const unsigned char v4s[][4] = {{0, 0, 0, 0}, {0, 0, 0, 1}, {126, 255, 255, 255}, {127, 0, 0, 0}, {127, 0, 0, 1}, {127, 255, 255, 255}, {128, 0, 0, 0}, {255, 255, 255, 255},
                                         {1, 2, 3, 4}, {4, 3, 2, 1}, {0, 0, 0, 127}, {1, 0, 0, 127}, {0, 127, 0, 0}, {10, 0, 0, 254}, {254, 1, 255, 0}, {0, 0, 1, 0}, {1, 0, 0, 0}, {0, 1, 0, 0}, {192, 168, 0, 1}};
  static const unsigned ports[] = {0, 1, 255, 256, 0x1234, 65535};
  long idx = 0;
  for (auto &a : v4s)
    for (unsigned p : ports)
      for (int len = 0; len <= (int)sizeof(sockaddr_in6) + 8; len++) {
        if ((idx++ % nshards) != shard) continue;
        for (int dl : {0, 1, 15, 16, 17, 28}) {
          Case c; c.kind = '4'; c.addr = string((const char *)a, 4); c.port = p; c.family = AF_INET; c.len = len; c.destlen = dl;
          exec("grid", c, false);
          if (g_failed) return;
        }
      }
  // v6: all zero-run positions x lengths
  for (int a = 0; a <= 16; a++)
    for (int b = a; b <= 16; b++)
      for (unsigned p : ports) {
        if ((idx++ % nshards) != shard) continue;
        for (int len : {0, 1, 2, 16, 27, 28, 29, 36})
          for (int dl : {0, 16, 27, 28, 29}) {
            Case c; c.kind = '6'; c.addr = string(16, (char)0x11);
            for (int i = 0; i < 16; i++) c.addr[i] = (char)(0x11 * (i % 15 + 1));
            for (int i = a; i < b; i++) c.addr[i] = 0;
            c.port = p; c.flow = a * 0x01000001u; c.scope = b; c.family = AF_INET6; c.len = len; c.destlen = dl; c.setflow = 0xFFFFFFFFu; c.setscope = 0x80000001u;
            exec("grid", c, false);
            if (g_failed) return;
          }
      }
  vl::stats().exhaustive["boundary_grid_v4x19_ports6_len0..36_dest6_and_v6_zero_runs"] = true;
}

int run_generated() {
  long shard = vl::envl("VERIF_SHARD", 0), nshards = vl::envl("VERIF_NSHARDS", 1);
  string sub = vl::env("VERIF_SUB", "all");
  if (sub == "all" || sub == "grid") grid(shard, nshards);
  if (g_failed) return g_failed;
  if (sub == "all" || sub == "rand") {
    bool ok = rc::check("socket address conversions", [&] { Case c = *genCase(); exec("rand", c, true); });
    if (!ok) g_failed++;
  }
  return g_failed;
}
string run_replay(const string &text) {
  Case c;
  if (!from_text(text, c)) return "unparsable case";
  Outcome o = run_case(c);
  return o.verdict.empty() ? "" : "C17:" + o.klass + ": " + o.verdict;
}
} // namespace

#ifdef VERIF_FUZZ
#include <fuzzer/FuzzedDataProvider.h>

extern "C" int LLVMFuzzerInitialize(int *, char ***) { p_libsys_init(); vl::fuzz_init(); return 0; }
extern "C" int LLVMFuzzerTestOneInput(const uint8_t *data, size_t size) {
  FuzzedDataProvider fdp(data, size);
  Case c;
  int sel = fdp.ConsumeIntegralInRange<int>(0, 3);
  c.port = fdp.ConsumeIntegral<uint16_t>();
  if (sel == 0) { c.kind = '4'; c.addr = fdp.ConsumeBytesAsString(4); c.addr.resize(4, 0); c.family = fdp.ConsumeBool() ? AF_INET : fdp.PickValueInArray({AF_INET6, AF_UNIX, 0, 0xFFFF}); c.len = fdp.ConsumeIntegralInRange<int>(0, 40); c.destlen = fdp.ConsumeIntegralInRange<int>(0, 40); }
  else if (sel == 1) { c.kind = '6'; c.addr = fdp.ConsumeBytesAsString(16); c.addr.resize(16, 0); c.flow = fdp.ConsumeIntegral<uint32_t>(); c.scope = fdp.ConsumeIntegral<uint32_t>(); c.setflow = fdp.ConsumeIntegral<uint32_t>(); c.setscope = fdp.ConsumeIntegral<uint32_t>(); c.family = fdp.ConsumeBool() ? AF_INET6 : fdp.PickValueInArray({AF_INET, AF_UNIX, 0, 0xFFFF}); c.len = fdp.ConsumeIntegralInRange<int>(0, 40); c.destlen = fdp.ConsumeIntegralInRange<int>(0, 40); }
  else { c.kind = 's'; c.addr = fdp.ConsumeRemainingBytesAsString().substr(0, 80); }
  std::string text = to_text(c);
  vl::set_current_case("fuzz", text);
  Outcome o = run_case(c);
  vl::stats().record(text, o.nontrivial, o.fp);
  if (!o.verdict.empty()) vl::fuzz_report("fuzz", text, "C17:" + o.klass + ": " + o.verdict, o.klass);
  return 0;
}
#else
int main(int argc, char **argv) {
  p_libsys_init();
  vl::cpu_guard(60); // non-termination oracle: user CPU time per case, see vlib.h
  return vl::harness_main(argc, argv, run_generated, run_replay);
}
#endif
