// tree.cpp - model-based harness for PTree (C12 sorted map, C13 balance, C14 ownership).
//
// Case format (line oriented, this is the replay file):
//   tree <type 0=BST 1=RB 2=AVL> <cmp 0=natural 1=reversed 2=mod> <ctor 0=new 1=with_data 2=full>
//        <notif bit0=key notifier bit1=value notifier bit2=no comparator data bit3=key 0 is the NULL pointer
//               bit4=the values of keys k with k % 3 == 1 are NULL pointers (a tree used as a set; only without a value notifier)
//               bit5=the comparator returns results of any magnitude (difference style: only the sign carries meaning)> <universe>
//   i <k>            insert fresh key object + fresh value object for key k
//   I <k>            insert a fresh key object for key k together with the value object that is stored for k right now (a value
//                    inserted a second time: the notifier is owed one call for the insertion that ends here); like i if k is absent
//   r <k>            remove key k
//   l <k>            lookup key k
//   f <stop>         foreach; callback returns TRUE at the (stop+1)-th visited pair; stop<0 never
//   c                clear
//   B <pat> <start> <count> <step>   bulk insert: 0 ascending 1 descending 2 organ-pipe 3 zig-zag 4 fibonacci-ish
//   D <pat> <count>                  bulk remove: 0 smallest 1 largest 2 alternate 3 median 4 root (first compared)
//   G <pat> <count>                  grow: insert <count> keys of the universe in pattern order (0 ascending 1 descending 2 organ-pipe 3 zig-zag)
//                                    WITHOUT per-operation checks, then check content, shape and depth once (large trees)
//   H <pat> <count>                  shrink: remove <count> keys (0 smallest 1 largest 2 alternate) without per-operation checks, then check once
//
// The oracle set asserted depends on VERIF_PROP (C12 | C13 | C14); failures of the other
// properties' oracles end the case silently and are counted as foreign.
#include <rapidcheck.h>
#include "../../vlib/vlib.h"
#include <cmath>
#include <memory>
extern "C" {
#include <plibsys.h>
}

using std::string;
using std::vector;

namespace {

const uint32_t MAGIC_KEY = 0x4B45594Bu, MAGIC_VAL = 0x56414C56u, MAGIC_DEAD = 0xDEADDEADu;

struct Obj {
  uint32_t magic;
  int id;
  int key;
  int kind; // 0 key 1 value
};

struct Op {
  char kind;
  int a = 0, b = 0, c = 0, d = 0;
};
struct Case {
  int type = 0, cmp = 0, ctor = 0, notif = 0, universe = 8;
  vector<Op> ops;
};

std::ostream &operator<<(std::ostream &os, const Op &o) {
  os << o.kind;
  switch (o.kind) {
  case 'i': case 'I': case 'F': case 'r': case 'l': case 'f': os << ' ' << o.a; break;
  case 'B': os << ' ' << o.a << ' ' << o.b << ' ' << o.c << ' ' << o.d; break;
  case 'D': case 'G': case 'H': os << ' ' << o.a << ' ' << o.b; break;
  default: break;
  }
  return os;
}
string to_text(const Case &c) {
  std::ostringstream os;
  os << "tree " << c.type << ' ' << c.cmp << ' ' << c.ctor << ' ' << c.notif << ' ' << c.universe << "\n";
  for (auto &o : c.ops) os << o << "\n";
  return os.str();
}
bool from_text(const string &t, Case &c) {
  auto lines = vl::split_lines(t);
  if (lines.empty()) return false;
  auto h = vl::split_ws(lines[0]);
  if (h.size() < 6 || h[0] != "tree") return false;
  c.type = atoi(h[1].c_str()); c.cmp = atoi(h[2].c_str()); c.ctor = atoi(h[3].c_str());
  c.notif = atoi(h[4].c_str()); c.universe = atoi(h[5].c_str());
  for (size_t i = 1; i < lines.size(); i++) {
    auto w = vl::split_ws(lines[i]);
    if (w.empty()) continue;
    Op o; o.kind = w[0][0];
    if (w.size() > 1) o.a = atoi(w[1].c_str());
    if (w.size() > 2) o.b = atoi(w[2].c_str());
    if (w.size() > 3) o.c = atoi(w[3].c_str());
    if (w.size() > 4) o.d = atoi(w[4].c_str());
    c.ops.push_back(o);
  }
  return true;
}

// ---- comparator family ----------------------------------------------------------------
struct CmpCtx { int mode; int m; uint32_t tag; };
CmpCtx g_ctx;
vector<int> *g_trace = nullptr; // when set: node keys compared against, in order
string g_cmp_error;
long g_cmp_calls = 0;
// notif bit 8: key 0 of the universe is represented by the NULL pointer (a legal key: the comparator decides what it means); its
// "object id" for the destroy log is kept here while it is stored
bool g_nullkey = false; int g_null_kid = -1;
bool g_cmp_magnitude = false;   // notif bit 32: "negative / zero / positive", like strcmp or a - b, not -1 / 0 / 1

int order_cmp(int mode, int m, int a, int b) {
  switch (mode) {
  case 1: return a > b ? -1 : (a < b ? 1 : 0);
  case 2: {
    int ra = a % m, rb = b % m;
    if (ra != rb) return ra < rb ? -1 : 1;
    return a < b ? -1 : (a > b ? 1 : 0);
  }
  default: return a < b ? -1 : (a > b ? 1 : 0);
  }
}
int cmp_objs(const void *a, const void *b) {
  const Obj *x = (const Obj *)a, *y = (const Obj *)b;
  g_cmp_calls++;
  if ((!x || !y) && !g_nullkey) { if (g_cmp_error.empty()) g_cmp_error = "comparator called with NULL key"; return 0; }
  if ((x && x->magic != MAGIC_KEY) || (y && y->magic != MAGIC_KEY)) {
    if (g_cmp_error.empty()) g_cmp_error = "comparator called with a destroyed or foreign key object";
    return 0;
  }
  int kx = x ? x->key : 0, ky = y ? y->key : 0;
  if (g_trace) g_trace->push_back(ky);
  int r = order_cmp(g_ctx.mode, g_ctx.m, kx, ky);
  if (g_cmp_magnitude) { int d = kx > ky ? kx - ky : ky - kx; r *= 1 + (d % 5) * 1009 + (d > 40 ? 1000000 : 0); }
  return r;
}
pint cmp2(pconstpointer a, pconstpointer b) { return cmp_objs(a, b); }
pint cmp3(pconstpointer a, pconstpointer b, ppointer data) {
  if (data != (ppointer)&g_ctx && g_cmp_error.empty()) g_cmp_error = "comparator received wrong user data";
  return cmp_objs(a, b);
}
pint cmp3_nodata(pconstpointer a, pconstpointer b, ppointer data) {
  if (data != NULL && g_cmp_error.empty()) g_cmp_error = "comparator received non-NULL user data";
  return cmp_objs(a, b);
}

struct ModelCmp {
  bool operator()(int a, int b) const { return order_cmp(g_ctx.mode, g_ctx.m, a, b) < 0; }
};

// ---- destroy log ----------------------------------------------------------------------
struct LogEnt { int id; int kind; };
vector<LogEnt> g_log;
bool g_free_on_destroy = false;
string g_destroy_error;
// op F: an insert during which every library allocation fails (p_mem_set_vtable): a new key is silently not stored (p_tree_insert has no
// result), an equal key is replaced as usual (no allocation needed) - either way it is "an operation on the tree" after which C12/C13/C14 hold
bool g_fail_alloc = false; bool g_vtable_set = false; long g_failed_allocs = 0;
ppointer ft_malloc(psize n) { if (g_fail_alloc) { g_failed_allocs++; return NULL; } return malloc(n); }
ppointer ft_realloc(ppointer p, psize n) { if (g_fail_alloc) { g_failed_allocs++; return NULL; } return realloc(p, n); }
void ft_free(ppointer p) { free(p); }
void *g_keep_obj = nullptr;   // op I: this value object is being replaced BY ITSELF - the notifier call is logged, the object lives on

void destroy_common(void *p, int kind) {
  Obj *o = (Obj *)p;
  if (!o && g_nullkey && kind == 0 && g_null_kid >= 0) { g_log.push_back({g_null_kid, 0}); g_null_kid = -1; return; }
  if (!o) { if (g_destroy_error.empty()) g_destroy_error = g_nullkey && kind == 0 ? "key notifier called with the NULL key although no NULL key is stored (or twice)" : "notifier called with NULL"; return; }
  uint32_t want = kind == 0 ? MAGIC_KEY : MAGIC_VAL;
  if (o->magic != want) {
    if (g_destroy_error.empty())
      g_destroy_error = o->magic == MAGIC_DEAD ? "notifier called twice for one object" : "notifier called with wrong kind of object";
    return;
  }
  g_log.push_back({o->id, kind});
  if (p == g_keep_obj) return;
  if (g_free_on_destroy) { o->magic = MAGIC_DEAD; free(o); }
  else o->magic = MAGIC_DEAD; // logically dead: comparator complains if it is still used as a key
}
void destroy_key(ppointer p) { destroy_common(p, 0); }
void destroy_val(ppointer p) { destroy_common(p, 1); }

// ---- shape reconstruction through the public API -------------------------------------------
struct Shape {
  struct Node { int key; int left = -1, right = -1; int depth = 0; };
  vector<Node> nodes;
  std::map<int, int> idx; // key -> node index
  int root = -1;
  int nchildren(int key) const {
    auto it = idx.find(key);
    if (it == idx.end()) return -1;
    const Node &n = nodes[it->second];
    return (n.left >= 0) + (n.right >= 0);
  }
  int depth(int key) const { auto it = idx.find(key); return it == idx.end() ? -1 : nodes[it->second].depth; }
};

int g_foreach_stop;
int g_foreach_seen;
struct Visit { Obj *k; Obj *v; };
vector<Visit> g_visits;
pboolean trav(ppointer key, ppointer value, ppointer data) {
  (void)data;
  g_visits.push_back({(Obj *)key, (Obj *)value});
  bool stop = g_foreach_stop >= 0 && g_foreach_seen == g_foreach_stop;
  g_foreach_seen++;
  return stop ? TRUE : FALSE;
}

struct Runner {
  const Case &cs;
  string prop;
  PTree *tree = nullptr;
  struct Ent { Obj *k; Obj *v; int kid; int vid; };
  std::map<int, Ent, ModelCmp> model;
  vector<Obj *> owned;     // objects never handed to a destroying notifier -> harness frees
  std::map<int, Obj *> all; // id -> object (for post-mortem when not freeing)
  int next_id = 1;
  size_t log_mark = 0;
  std::set<int> destroyed_ids;
  string verdict, vclass;
  bool foreign = false;
  // classification
  bool saw_replace = false, saw_two_child = false, saw_stop = false, saw_touch_after_two_child = false;
  bool saw_rot_remove = false;
  bool pending_two_child = false;
  uint64_t shape_fp = 1469598103934665603ULL;
  int max_n = 0;
  long ops_done = 0;
  bool quiet = false;   // G / H: no shape reconstruction around every single operation

  Runner(const Case &c, const string &p) : cs(c), prop(p) {}

  bool has_kd() const { return cs.ctor == 2 && (cs.notif & 1); }
  bool has_vd() const { return cs.ctor == 2 && (cs.notif & 2); }
  // a NULL value is a legal value ("lookup returns the current value or NULL" cannot tell it from an absent key, everything else can)
  bool null_value(int k) const { return (cs.notif & 16) && !has_vd() && k % 3 == 1; }

  void fail(const string &p, const string &klass, const string &msg) {
    if (!verdict.empty() || foreign) return;
    if (p == prop) { verdict = msg; vclass = klass; }
    else { foreign = true; vl::stats().count("foreign_" + p); }
  }
  bool stop() const { return !verdict.empty() || foreign; }

  Obj *mk(int key, int kind) {
    if (kind == 0 && key == 0 && g_nullkey) return NULL;
    Obj *o = (Obj *)malloc(sizeof(Obj));
    o->magic = kind == 0 ? MAGIC_KEY : MAGIC_VAL; o->id = next_id++; o->key = key; o->kind = kind;
    return o;
  }

  Shape reconstruct(string *err) {
    Shape s;
    std::map<int, vector<int>> paths;
    for (auto &kv : model) {
      vector<int> tr;
      Obj probe{MAGIC_KEY, 0, kv.first, 0};
      g_trace = &tr;
      ppointer r = p_tree_lookup(tree, &probe);
      g_trace = nullptr;
      if (r != kv.second.v) { if (err) *err = "lookup of stored key failed during shape reconstruction"; return s; }
      if (tr.empty() || tr.back() != kv.first) { if (err) *err = "lookup path does not end at the key"; return s; }
      paths[kv.first] = tr;
    }
    // consistency: path(k) = path(parent) + [k]
    for (auto &kv : paths) {
      const vector<int> &p = kv.second;
      Shape::Node n; n.key = kv.first; n.depth = (int)p.size();
      s.idx[kv.first] = (int)s.nodes.size();
      s.nodes.push_back(n);
    }
    for (auto &kv : paths) {
      const vector<int> &p = kv.second;
      if (p.size() == 1) {
        if (s.root >= 0 && s.nodes[s.root].key != kv.first) { if (err) *err = "two different roots observed"; return s; }
        s.root = s.idx[kv.first];
        continue;
      }
      int parent = p[p.size() - 2];
      auto pit = paths.find(parent);
      if (pit == paths.end()) { if (err) *err = "path goes through a key that is not stored"; return s; }
      vector<int> pre(p.begin(), p.end() - 1);
      if (pit->second != pre) { if (err) *err = "lookup paths are mutually inconsistent"; return s; }
      int c = order_cmp(g_ctx.mode, g_ctx.m, kv.first, parent);
      Shape::Node &pn = s.nodes[s.idx[parent]];
      int me = s.idx[kv.first];
      if (c < 0) { if (pn.left >= 0 && pn.left != me) { if (err) *err = "two left children"; return s; } pn.left = me; }
      else if (c > 0) { if (pn.right >= 0 && pn.right != me) { if (err) *err = "two right children"; return s; } pn.right = me; }
      else { if (err) *err = "equal keys on a path"; return s; }
    }
    if (!model.empty() && s.root < 0) { if (err) *err = "no root found"; }
    return s;
  }

  // height; sets bad if |hl-hr|>1 anywhere
  int avl_height(const Shape &s, int n, bool &bad) {
    if (n < 0) return 0;
    int hl = avl_height(s, s.nodes[n].left, bad), hr = avl_height(s, s.nodes[n].right, bad);
    if (std::abs(hl - hr) > 1) bad = true;
    return 1 + std::max(hl, hr);
  }
  // red-black colourability: masks of feasible black-heights for red root / black root
  struct RB { uint64_t red = 0, black = 0; };
  RB rb_dp(const Shape &s, int n) {
    RB r;
    if (n < 0) { r.black = 1ULL << 1; return r; } // NULL leaf: black, black-height 1
    RB a = rb_dp(s, s.nodes[n].left), b = rb_dp(s, s.nodes[n].right);
    uint64_t both_black = a.black & b.black;          // children black roots with equal bh
    uint64_t any = (a.red | a.black) & (b.red | b.black);
    r.red = both_black;      // red node keeps the black-height
    r.black = any << 1;      // black node adds one
    return r;
  }
  uint64_t shape_hash(const Shape &s, int n) {
    if (n < 0) return 0x9e3779b97f4a7c15ULL;
    uint64_t h = vl::mix(shape_hash(s, s.nodes[n].left), shape_hash(s, s.nodes[n].right));
    return h * 31 + 7;
  }

  void check_balance(const Shape &s) {
    int n = (int)model.size();
    if (n == 0) return;
    int maxdepth = 0;
    for (auto &nd : s.nodes) maxdepth = std::max(maxdepth, nd.depth);
    if (cs.type == 2) {
      bool bad = false;
      avl_height(s, s.root, bad);
      if (bad) fail("C13", "avl-unbalanced", "AVL: some node's subtrees differ in height by more than one");
      double bound = 1.4405 * std::log2((double)n + 2.0);
      if (maxdepth > bound + 1e-9)
        fail("C13", "avl-depth", "AVL: lookup compared against " + std::to_string(maxdepth) + " keys, n=" + std::to_string(n));
    } else if (cs.type == 1) {
      RB r = rb_dp(s, s.root);
      if ((r.red | r.black) == 0) fail("C13", "rb-uncolourable", "RB: tree shape admits no valid red-black colouring");
      double bound = 2.0 * std::log2((double)n + 1.0);
      if (maxdepth > bound + 1e-9)
        fail("C13", "rb-depth", "RB: lookup compared against " + std::to_string(maxdepth) + " keys, n=" + std::to_string(n));
    }
  }

  // full scan against the model
  void scan(bool full_universe) {
    if (stop()) return;
    if (p_tree_get_nnodes(tree) != (pint)model.size()) {
      fail("C12", "count", "nnodes=" + std::to_string(p_tree_get_nnodes(tree)) + " model size=" + std::to_string(model.size()));
      return;
    }
    g_visits.clear(); g_foreach_stop = -1; g_foreach_seen = 0;
    p_tree_foreach(tree, trav, NULL);
    if (g_visits.size() != model.size()) { fail("C12", "foreach-count", "full foreach visited " + std::to_string(g_visits.size()) + " pairs, model has " + std::to_string(model.size())); return; }
    size_t i = 0;
    for (auto &kv : model) {
      if (g_visits[i].k != kv.second.k) { fail("C12", "foreach-order", "foreach pair " + std::to_string(i) + " has wrong key object (order or stale key)"); return; }
      if (g_visits[i].v != kv.second.v) { fail("C12", "foreach-value", "foreach pair " + std::to_string(i) + " has wrong value"); return; }
      i++;
    }
    int U = cs.universe;
    if (full_universe) {
      for (int k = 0; k < U; k++) lookup_check(k);
    } else {
      for (auto &kv : model) lookup_check(kv.first);
    }
    if (!g_cmp_error.empty()) fail("C14", "use-after-destroy", g_cmp_error);
  }
  void lookup_check(int k) {
    if (stop()) return;
    Obj probe{MAGIC_KEY, 0, k, 0};
    ppointer r = p_tree_lookup(tree, &probe);
    auto it = model.find(k);
    ppointer want = it == model.end() ? NULL : (ppointer)it->second.v;
    if (r != want) fail("C12", "lookup", "lookup(" + std::to_string(k) + ") returned " + (r ? "a wrong value" : "NULL") + ", model " + (want ? "has the key" : "has no such key"));
  }

  // compare destroy-log delta with expected set of ids
  void check_log(const std::set<std::pair<int, int>> &expect, const char *what) {
    if (stop()) return;
    if (!g_destroy_error.empty()) { fail("C14", "notifier-misuse", string(what) + ": " + g_destroy_error); return; }
    std::set<std::pair<int, int>> got;
    for (size_t i = log_mark; i < g_log.size(); i++) {
      auto p = std::make_pair(g_log[i].id, g_log[i].kind);
      if (!got.insert(p).second || destroyed_ids.count(p.first)) { fail("C14", "double-destroy", string(what) + ": object id " + std::to_string(p.first) + " destroyed twice"); return; }
    }
    log_mark = g_log.size();
    if (got != expect) {
      std::ostringstream os;
      os << what << ": destroyed {";
      for (auto &p : got) os << (p.second ? "v" : "k") << p.first << ' ';
      os << "} expected {";
      for (auto &p : expect) os << (p.second ? "v" : "k") << p.first << ' ';
      os << "}";
      // classify
      string klass = "wrong-destroy-set";
      fail("C14", klass, os.str());
      return;
    }
    for (auto &p : got) destroyed_ids.insert(p.first);
  }

  void do_insert(int k, bool failing = false) {
    if (failing && model.find(k) == model.end()) {
      Obj *ko = mk(k, 0), *vo = mk(k, 1);
      if (ko) { all[ko->id] = ko; owned.push_back(ko); }
      all[vo->id] = vo; owned.push_back(vo);
      long f0 = g_failed_allocs;
      g_fail_alloc = true; p_tree_insert(tree, ko, vo); g_fail_alloc = false;
      if (g_failed_allocs == f0) { vl::stats().count("failing_insert_made_no_allocation"); }
      vl::stats().klass("insert_of_new_key_with_failing_allocation");
      check_log({}, "insert(new key, allocation failed)");   // the pair was not stored: the caller keeps both objects, the model is unchanged
      return;
    }
    if (failing) vl::stats().klass("replace_with_failing_allocation");
    Obj *ko = mk(k, 0), *vo = null_value(k) ? NULL : mk(k, 1);
    int kid = ko ? ko->id : next_id++;
    if (ko) all[ko->id] = ko; else vl::stats().klass("null_key_inserted");
    if (vo) all[vo->id] = vo; else vl::stats().klass("null_value_inserted");
    std::set<std::pair<int, int>> expect;
    auto it = model.find(k);
    if (it != model.end()) {
      saw_replace = true;
      if (has_kd()) expect.insert({it->second.kid, 0}); else owned.push_back(it->second.k);
      if (has_vd()) expect.insert({it->second.vid, 1}); else owned.push_back(it->second.v);
      if (pending_two_child) saw_touch_after_two_child = true;
    }
    g_fail_alloc = failing; p_tree_insert(tree, ko, vo); g_fail_alloc = false;
    if (!ko) g_null_kid = kid;   // (a replaced NULL key was logged under the old id during the call)
    model[k] = Ent{ko, vo, kid, vo ? vo->id : -1};
    // std::map::operator[] keeps the old key (int) - fine, key ints are equal
    check_log(expect, "insert");
    max_n = std::max(max_n, (int)model.size());
  }

  void do_reinsert_same_value(int k) {
    auto it = model.find(k);
    if (it == model.end()) { do_insert(k); return; }
    Obj *ko = mk(k, 0); int kid = ko ? ko->id : next_id++;
    if (ko) all[ko->id] = ko;
    Obj *vo = it->second.v;
    std::set<std::pair<int, int>> expect;
    saw_replace = true;
    if (has_kd()) expect.insert({it->second.kid, 0}); else owned.push_back(it->second.k);
    if (has_vd()) expect.insert({it->second.vid, 1});
    g_keep_obj = vo;
    p_tree_insert(tree, ko, vo);
    g_keep_obj = nullptr;
    if (!ko) g_null_kid = kid;
    int vid = it->second.vid;
    if (has_vd()) { all.erase(vid); vid = next_id++; vo->id = vid; all[vid] = vo; }   // the same object, inserted anew: a new logical insertion (one entry per object in `all`)
    model[k] = Ent{ko, vo, kid, vid};
    check_log(expect, "insert(same value object)");
    vl::stats().klass("replace_with_same_value_object");
  }

  void do_remove(int k) {
    auto it = model.find(k);
    std::set<std::pair<int, int>> expect;
    int nch = -1, depth = -1;
    Shape before;
    bool have_shape = false;
    if (it != model.end() && model.size() <= 400 && !quiet) {
      string err;
      before = reconstruct(&err);
      if (!err.empty()) { fail("C12", "shape", "shape reconstruction: " + err); return; }
      have_shape = true;
      nch = before.nchildren(k); depth = before.depth(k);
    }
    if (it != model.end()) {
      if (has_kd()) expect.insert({it->second.kid, 0}); else owned.push_back(it->second.k);
      if (has_vd()) expect.insert({it->second.vid, 1}); else owned.push_back(it->second.v);
    }
    Obj probe{MAGIC_KEY, 0, k, 0};
    pboolean r = p_tree_remove(tree, &probe);
    bool existed = it != model.end();
    if (existed && !it->second.v) vl::stats().klass("remove_of_a_key_with_NULL_value");
    if ((r == TRUE) != existed) { fail("C12", "remove-result", "remove(" + std::to_string(k) + ") returned " + (r ? "TRUE" : "FALSE") + " but key " + (existed ? "existed" : "did not exist")); }
    if (existed) model.erase(it);
    if (stop()) return;
    check_log(expect, nch == 2 ? "remove(two-child)" : nch == 1 ? "remove(one-child)" : nch == 0 ? "remove(leaf)" : "remove");
    if (existed) {
      static const char *tn[] = {"bst", "rb", "avl"};
      if (nch >= 0) {
        vl::stats().klass(string("remove_") + tn[cs.type] + "_children" + std::to_string(nch) + "_depth" + std::to_string(std::min(depth, 6)));
        if (nch == 2) { saw_two_child = true; pending_two_child = true; }
      }
      if (have_shape && prop == "C13" && !stop()) {
        // did the removal restructure (rotation)? compare depth of surviving keys' parents
        string err;
        Shape after = reconstruct(&err);
        if (!err.empty()) { fail("C12", "shape", "shape reconstruction: " + err); return; }
        // count keys whose depth changed excluding descendants moved up by plain unlinking:
        // a rotation is detected when some key's depth INCREASED (plain unlink never increases a depth)
        int moved = 0;
        for (auto &nd : after.nodes) { int d0 = before.depth(nd.key); if (nd.depth > d0) moved++; }
        if (moved > 0) { saw_rot_remove = true; vl::stats().klass(string("remove_rotated_") + tn[cs.type]); shape_fp = vl::mix(shape_fp, shape_hash(after, after.root)); }
      }
    } else {
      vl::stats().klass("remove_absent");
    }
  }

  void do_foreach(int stopj) {
    g_visits.clear(); g_foreach_stop = stopj; g_foreach_seen = 0;
    p_tree_foreach(tree, trav, NULL);
    size_t n = model.size();
    size_t want = (stopj < 0 || (size_t)stopj >= n) ? n : (size_t)stopj + 1;
    if (g_visits.size() != want) {
      fail("C12", "foreach-stop", "foreach(stop after " + std::to_string(stopj) + ") made " + std::to_string(g_visits.size()) + " callbacks, expected " + std::to_string(want) + " (n=" + std::to_string(n) + ")");
      return;
    }
    size_t i = 0;
    for (auto &kv : model) {
      if (i >= want) break;
      if (g_visits[i].k != kv.second.k || g_visits[i].v != kv.second.v) { fail("C12", "foreach-prefix", "early-stopped foreach visited a wrong pair at position " + std::to_string(i)); return; }
      i++;
    }
    if (stopj >= 0 && (size_t)stopj < n && n >= 3) {
      saw_stop = true;
      vl::stats().klass(stopj == 0 ? "stop_first" : ((size_t)stopj == n - 1 ? "stop_last" : "stop_middle"));
    }
    check_log({}, "foreach");
  }

  void do_clear() {
    std::set<std::pair<int, int>> expect;
    for (auto &kv : model) {
      if (has_kd()) expect.insert({kv.second.kid, 0}); else owned.push_back(kv.second.k);
      if (has_vd()) expect.insert({kv.second.vid, 1}); else owned.push_back(kv.second.v);
    }
    if (!model.empty()) vl::stats().klass("clear_nonempty"); else vl::stats().klass("clear_empty");
    p_tree_clear(tree);
    model.clear();
    check_log(expect, "clear");
    pending_two_child = false;
  }

  void after_mutation() {
    if (stop()) return;
    bool small = cs.universe <= 64;
    bool do_scan = small || (ops_done % 16 == 0);
    if (do_scan) scan(small);
    if (prop == "C13" && !stop() && cs.type != 0) {
      if (model.size() <= 300 || ops_done % 16 == 0) {
        string err;
        Shape s = reconstruct(&err);
        if (!err.empty()) { fail("C12", "shape", "shape reconstruction: " + err); return; }
        check_balance(s);
      }
    }
  }

  vector<int> bulk_keys(int pat, int start, int count, int step) {
    vector<int> ks;
    int U = cs.universe;
    if (step <= 0) step = 1;
    auto norm = [&](long v) { return (int)(((v % U) + U) % U); };
    switch (pat) {
    case 0: for (int i = 0; i < count; i++) ks.push_back(norm(start + (long)i * step)); break;
    case 1: for (int i = 0; i < count; i++) ks.push_back(norm(start - (long)i * step)); break;
    case 2: for (int i = 0; i < count; i++) ks.push_back(norm(i % 2 == 0 ? start + (long)(i / 2) * step : start + (long)(count - 1 - i / 2) * step)); break;
    case 3: for (int i = 0; i < count; i++) ks.push_back(norm(i % 2 == 0 ? start + (long)(i / 2) * step : start - (long)(i / 2 + 1) * step)); break;
    default: { // fibonacci-ish: insert order producing skewed minimal-AVL-like shapes
      long a = 1, b = 2;
      for (int i = 0; i < count; i++) { ks.push_back(norm(start + a * step)); long t = a + b; a = b; b = t % (U > 1 ? U : 2) + 1; }
    }
    }
    return ks;
  }

  void run() {
    g_ctx.mode = cs.cmp; g_ctx.m = 7; g_ctx.tag = 0;
    g_cmp_error.clear(); g_destroy_error.clear(); g_log.clear(); g_trace = nullptr;
    g_nullkey = (cs.notif & 8) != 0; g_null_kid = -1;
    g_cmp_magnitude = (cs.notif & 32) != 0; if (g_cmp_magnitude) vl::stats().klass("comparator_with_results_of_any_magnitude");
    if (!g_vtable_set) { PMemVTable vt; vt.f_malloc = ft_malloc; vt.f_realloc = ft_realloc; vt.f_free = ft_free; g_vtable_set = p_mem_set_vtable(&vt) == TRUE; }
    g_free_on_destroy = (prop == "C14");
    PTreeType tt = cs.type == 0 ? P_TREE_TYPE_BINARY : cs.type == 1 ? P_TREE_TYPE_RB : P_TREE_TYPE_AVL;
    if (cs.ctor == 0) tree = p_tree_new(tt, cmp2);
    else if (cs.ctor == 1) tree = p_tree_new_with_data(tt, cmp3, &g_ctx);
    else tree = p_tree_new_full(tt, (cs.notif & 4) ? cmp3_nodata : cmp3, (cs.notif & 4) ? NULL : (ppointer)&g_ctx,
                                (cs.notif & 1) ? destroy_key : NULL, (cs.notif & 2) ? destroy_val : NULL);
    if (!tree) { fail("C12", "new", "p_tree_new* returned NULL"); return; }
    if (p_tree_get_type(tree) != tt) fail("C12", "type", "p_tree_get_type mismatch");
    scan(true);
    for (auto &o : cs.ops) {
      if (stop()) break;
      ops_done++;
      int U = cs.universe;
      switch (o.kind) {
      case 'i': do_insert(((o.a % U) + U) % U); after_mutation(); break;
      case 'I': do_reinsert_same_value(((o.a % U) + U) % U); after_mutation(); break;
      case 'F': do_insert(((o.a % U) + U) % U, true); after_mutation(); break;
      case 'r': do_remove(((o.a % U) + U) % U); after_mutation(); break;
      case 'l': lookup_check(((o.a % U) + U) % U); if (pending_two_child) saw_touch_after_two_child = true; break;
      case 'f': do_foreach(o.a); if (!stop()) scan(false); break;
      case 'c': do_clear(); after_mutation(); break;
      case 'B': for (int k : bulk_keys(o.a, o.b, std::min(o.c, 6000), o.d)) { if (stop()) break; do_insert(k); ops_done++; after_mutation(); } break;
      case 'G': case 'H': {
        int U2 = cs.universe; int cnt = std::min(o.b, U2);
        quiet = true;
        if (o.kind == 'G') {
          for (int i = 0; i < cnt && !stop(); i++) {
            long k;
            switch (o.a % 4) { case 0: k = i; break; case 1: k = cnt - 1 - i; break; case 2: k = (i % 2 == 0) ? i / 2 : cnt - 1 - i / 2; break; default: k = (i % 2 == 0) ? cnt / 2 + i / 2 : cnt / 2 - 1 - i / 2; }
            if (k < 0) k = 0;
            do_insert((int)(k % U2)); ops_done++;
          }
        } else {
          for (int j = 0; j < cnt && !model.empty() && !stop(); j++) {
            int k = (o.a % 3 == 0) ? model.begin()->first : (o.a % 3 == 1) ? std::prev(model.end())->first : ((j % 2 == 0) ? model.begin()->first : std::prev(model.end())->first);
            do_remove(k); ops_done++;
          }
        }
        quiet = false;
        if (!stop()) scan(false);
        if (!stop() && prop == "C13" && cs.type != 0) { string err; Shape sh = reconstruct(&err); if (!err.empty()) fail("C12", "shape", "shape reconstruction: " + err); else check_balance(sh); }
        vl::stats().klass(model.size() >= 100000 ? "big_tree_ge_100000" : model.size() >= 10000 ? "big_tree_ge_10000" : "big_tree_small");
        break;
      }
      case 'D': {
        int cnt = std::min(o.b, 6000);
        for (int j = 0; j < cnt && !model.empty() && !stop(); j++) {
          int k;
          switch (o.a) {
          case 0: k = model.begin()->first; break;
          case 1: k = std::prev(model.end())->first; break;
          case 2: k = (j % 2 == 0) ? model.begin()->first : std::prev(model.end())->first; break;
          case 3: { auto it = model.begin(); std::advance(it, model.size() / 2); k = it->first; break; }
          default: { // root: first key compared in any lookup
            vector<int> tr; Obj probe{MAGIC_KEY, 0, model.begin()->first, 0};
            g_trace = &tr; p_tree_lookup(tree, &probe); g_trace = nullptr;
            k = tr.empty() ? model.begin()->first : tr[0];
          }
          }
          do_remove(k); ops_done++; after_mutation();
        }
        break;
      }
      default: break;
      }
      if (!g_cmp_error.empty()) fail("C14", "use-after-destroy", g_cmp_error);
    }
    if (!stop()) scan(cs.universe <= 5000);   // (lookup of every universe key only for universes up to 5000)
    // final: free the tree; everything left must be destroyed exactly once
    std::set<std::pair<int, int>> expect;
    for (auto &kv : model) {
      if (has_kd()) expect.insert({kv.second.kid, 0}); else owned.push_back(kv.second.k);
      if (has_vd()) expect.insert({kv.second.vid, 1}); else owned.push_back(kv.second.v);
    }
    bool was_ok = !stop();
    if (!was_ok) return; // property already decided for this case; the tree may hold destroyed objects: leak it
    p_tree_free(tree);
    tree = nullptr;
    model.clear();
    if (was_ok) check_log(expect, "free");
    if (was_ok && !stop()) {
      // objects the tree never owned a notifier for must be untouched
      for (Obj *o : owned) {
        if (!o) continue;
        uint32_t want = o->kind == 0 ? MAGIC_KEY : MAGIC_VAL;
        if (o->magic != want) { fail("C14", "altered-user-object", "tree altered or destroyed an object it has no notifier for"); break; }
      }
    }
    // memory hygiene of the harness itself
    if (prop == "C14") {
      // notifier-owned objects were freed by the notifier when logged; free the rest
      std::set<int> logged;
      for (auto &e : g_log) logged.insert(e.id);
      for (auto &kv : all) if (!logged.count(kv.first)) free(kv.second);
    } else {
      for (auto &kv : all) free(kv.second);
    }
  }
};

struct Outcome { string verdict, klass; bool nontrivial; uint64_t fp; };

Outcome run_case(const Case &c, const string &prop) {
  Runner r(c, prop);
  r.run();
  Outcome o;
  o.verdict = r.verdict; o.klass = r.vclass;
  if (prop == "C12") o.nontrivial = r.saw_replace && r.saw_two_child && r.saw_stop;
  else if (prop == "C13") o.nontrivial = r.saw_rot_remove;
  else o.nontrivial = r.saw_two_child && r.saw_touch_after_two_child && r.saw_replace;
  o.fp = prop == "C13" ? vl::mix(r.shape_fp, c.type) : vl::fnv1a(to_text(c));
  static const char *tn[] = {"bst", "rb", "avl"};
  vl::stats().klass(string("type_") + tn[c.type]);
  vl::stats().klass("notif_" + std::to_string(c.ctor == 2 ? (c.notif & 3) : 0));
  if (r.saw_replace) vl::stats().klass("has_replace");
  if (r.saw_two_child) vl::stats().klass("has_two_child_removal");
  if (r.saw_stop) vl::stats().klass("has_early_stop");
  vl::stats().klass(r.max_n <= 8 ? "maxn_le8" : r.max_n <= 64 ? "maxn_le64" : r.max_n <= 400 ? "maxn_le400" : "maxn_gt400");
  return o;
}

// ---- generators ------------------------------------------------------------------------
template <class T> rc::Gen<T> fixed(int size, rc::Gen<T> g) { return rc::gen::resize(size, std::move(g)); }
rc::Gen<int> rng(int lo, int hi) { return rc::gen::resize(100, rc::gen::inRange(lo, hi)); }

rc::Gen<Op> genOp(int U, bool shapes) {
  using namespace rc;
  auto key = shapes && U > 64 ? gen::oneOf(rng(0, U), rng(0, std::min(U, 40))) : rng(0, U);
  auto ins = gen::map(key, [](int k) { Op o; o.kind = 'i'; o.a = k; return o; });
  auto rem = gen::map(key, [](int k) { Op o; o.kind = 'r'; o.a = k; return o; });
  auto reins = gen::map(key, [](int k) { Op o; o.kind = 'I'; o.a = k; return o; });
  auto fins = gen::map(key, [](int k) { Op o; o.kind = 'F'; o.a = k; return o; });
  auto look = gen::map(key, [](int k) { Op o; o.kind = 'l'; o.a = k; return o; });
  auto fe = gen::map(gen::weightedOneOf<int>({{2, gen::just(-1)}, {3, rng(0, 4)}, {2, rng(0, std::min(U, 80))}}),
                     [](int s) { Op o; o.kind = 'f'; o.a = s; return o; });
  auto clr = gen::just(Op{'c'});
  auto bulk = gen::map(gen::tuple(rng(0, 5), rng(0, U), rng(1, U > 64 ? 400 : U + 1), rng(1, 4)),
                       [](const std::tuple<int, int, int, int> &t) { Op o; o.kind = 'B'; o.a = std::get<0>(t); o.b = std::get<1>(t); o.c = std::get<2>(t); o.d = std::get<3>(t); return o; });
  auto brem = gen::map(gen::tuple(rng(0, 5), rng(1, U > 64 ? 200 : U + 1)),
                       [](const std::tuple<int, int> &t) { Op o; o.kind = 'D'; o.a = std::get<0>(t); o.b = std::get<1>(t); return o; });
  if (shapes)
    return gen::weightedOneOf<Op>({{30, ins}, {30, rem}, {3, look}, {3, fe}, {1, clr}, {8, bulk}, {10, brem}, {2, reins}, {4, fins}});
  return gen::weightedOneOf<Op>({{40, ins}, {28, rem}, {8, look}, {12, fe}, {2, clr}, {4, bulk}, {4, brem}, {5, reins}, {3, fins}});
}

rc::Gen<Case> genCase(const string &prop) {
  using namespace rc;
  return gen::mapcat(gen::tuple(rng(0, 3), rng(0, 3), gen::weightedElement<int>({{2, 0}, {2, 1}, {6, 2}}), rng(0, 64),
                                gen::weightedElement<int>({{3, 3}, {4, 8}, {4, 64}, {2, 5000}})),
                     [prop](const std::tuple<int, int, int, int, int> &t) {
                       Case base;
                       base.type = std::get<0>(t); base.cmp = std::get<1>(t); base.ctor = std::get<2>(t);
                       base.notif = std::get<3>(t); base.universe = std::get<4>(t);
                       if (prop == "C13" && base.type == 0) base.type = 1 + (base.cmp & 1);
                       if (prop == "C14") { base.ctor = 2; }
                       int U = base.universe;
                       return gen::map(gen::container<vector<Op>>(genOp(U, prop == "C13")), [base](vector<Op> ops) {
                         Case c = base; c.ops = std::move(ops); return c;
                       });
                     });
}

void showValue(const Case &c, std::ostream &os) { os << to_text(c); }

int g_failed = 0;

void exec_and_record(const string &sub, const Case &c, const string &prop, bool rc_mode) {
  string text = to_text(c);
  vl::set_current_case(sub.c_str(), text);
  Outcome o = run_case(c, prop);
  vl::stats().record(text, o.nontrivial, o.fp);
  if (!o.verdict.empty()) {
    vl::report_failure(sub, text, prop + ":" + o.klass + ": " + o.verdict, o.klass);
    if (rc_mode) RC_FAIL(o.verdict);
    g_failed++;
  }
}

// bounded-exhaustive sub-runs -------------------------------------------------------------
void exhaustive_perms(const string &prop, int nins, int nrem, long shard, long nshards) {
  // all insertion orders of keys 0..n-1 (n<=nins); for n<=nrem followed by all removal orders
  long idx = 0;
  for (int type = 0; type < 3; type++) {
    if (prop == "C13" && type == 0) continue;
    for (int n = 1; n <= nins; n++) {
      vector<int> perm(n);
      for (int i = 0; i < n; i++) perm[i] = i;
      do {
        if ((idx++ % nshards) != shard) continue;
        if (n <= nrem) {
          vector<int> rp(n);
          for (int i = 0; i < n; i++) rp[i] = i;
          do {
            Case c; c.type = type; c.cmp = 0; c.ctor = 2; c.notif = 3; c.universe = n;
            for (int k : perm) c.ops.push_back(Op{'i', k});
            for (int k : rp) c.ops.push_back(Op{'r', k});
            exec_and_record("exh_perm", c, prop, false);
            if (g_failed) return;
          } while (std::next_permutation(rp.begin(), rp.end()));
        } else {
          Case c; c.type = type; c.cmp = 0; c.ctor = 2; c.notif = 3; c.universe = n;
          for (int k : perm) c.ops.push_back(Op{'i', k});
          // remove in a rotation of the insertion order to add some removals cheaply
          for (int i = 0; i < n; i++) c.ops.push_back(Op{'r', perm[(i + n / 2) % n]});
          exec_and_record("exh_perm", c, prop, false);
          if (g_failed) return;
        }
      } while (std::next_permutation(perm.begin(), perm.end()));
    }
  }
  vl::stats().exhaustive["insert_perms_n<=" + std::to_string(nins) + "_x_removal_orders_n<=" + std::to_string(nrem)] = true;
}

void exhaustive_seqs(const string &prop, int maxlen, long shard, long nshards) {
  // every op sequence of length <= maxlen over 3 keys: i0 i1 i2 r0 r1 r2 f-1 f0 f1 c
  static const Op alphabet[] = {{'i', 0}, {'i', 1}, {'i', 2}, {'r', 0}, {'r', 1}, {'r', 2}, {'f', -1}, {'f', 0}, {'f', 1}, {'c'}};
  const int A = 10;
  long idx = 0;
  for (int type = 0; type < 3; type++) {
    if (prop == "C13" && type == 0) continue;
    for (int len = 1; len <= maxlen; len++) {
      long total = 1;
      for (int i = 0; i < len; i++) total *= A;
      for (long code = 0; code < total; code++) {
        if ((idx++ % nshards) != shard) continue;
        Case c; c.type = type; c.cmp = 0; c.ctor = 2; c.notif = 3; c.universe = 3;
        long x = code;
        for (int i = 0; i < len; i++) { c.ops.push_back(alphabet[x % A]); x /= A; }
        exec_and_record("exh_seq", c, prop, false);
        if (g_failed) return;
        if (prop == "C14") { c.notif = 11; exec_and_record("exh_seq", c, prop, false); if (g_failed) return; }   // the same with key 0 = the NULL pointer
        if (prop == "C12") { c.notif = 17; exec_and_record("exh_seq", c, prop, false); if (g_failed) return; }   // the same with key 1 carrying a NULL value
        if (prop != "C14") { c.notif = 35; exec_and_record("exh_seq", c, prop, false); if (g_failed) return; }   // the same with a difference-style comparator
      }
    }
  }
  vl::stats().exhaustive["all_op_sequences_len<=" + std::to_string(maxlen) + "_over_3_keys"] = true;
}

int run_generated() {
  string prop = vl::env("VERIF_PROP", "C12");
  string tier = vl::env("VERIF_TIER", "quick");
  long shard = vl::envl("VERIF_SHARD", 0), nshards = vl::envl("VERIF_NSHARDS", 1);
  string sub = vl::env("VERIF_SUB", "all");
  bool thorough = tier == "thorough";
  if (sub == "all" || sub == "exh") {
    exhaustive_perms(prop, thorough ? 7 : 6, thorough ? 6 : 5, shard, nshards);
    if (!g_failed) exhaustive_seqs(prop, thorough ? 6 : 5, shard, nshards);
  }
  if (!g_failed && (sub == "big")) {
    // large trees: retracing / fix-up paths longer than anything a small universe can produce (height > 16 needs ~100 000 ascending keys)
    long idx = 0;
    vector<int> sizes = thorough ? vector<int>{131079, 524295, 1048583} : vector<int>{131079};
    // C12: sizes on both sides of 2^16 (a node counter or index narrower than int shows there); the balanced variants only - a plain BST
    // fed with these key patterns is a list
    if (prop == "C12") sizes = thorough ? vector<int>{65535, 65536, 65537, 70001, 131079} : vector<int>{65536, 70001};
    for (int type = 1; type <= 2 && !g_failed; type++)
      for (int n : sizes)
        for (int pat = 0; pat < 4 && !g_failed; pat++) {
          if ((idx++ % nshards) != shard) continue;
          Case c; c.type = type; c.cmp = 0; c.ctor = 0; c.notif = 0; c.universe = n;
          c.ops.push_back(Op{'G', pat, n}); c.ops.push_back(Op{'l', n / 3}); c.ops.push_back(Op{'H', pat % 3, n / 2}); c.ops.push_back(Op{'G', (pat + 1) % 4, n / 4}); c.ops.push_back(Op{'f', 5});
          exec_and_record("big", c, prop, false);
        }
    return g_failed;
  }
  if (g_failed) return g_failed;
  if (sub == "all" || sub == "rand") {
    bool ok = rc::check("tree random sequences", [&] {
      Case c = *genCase(prop);
      exec_and_record("rand", c, prop, true);
    });
    if (!ok) g_failed++;
  }
  return g_failed;
}

string run_replay(const string &text) {
  Case c;
  if (!from_text(text, c)) return "unparsable case";
  string prop = vl::env("VERIF_PROP", "C12");
  Outcome o = run_case(c, prop);
  if (o.verdict.empty()) return "";
  return prop + ":" + o.klass + ": " + o.verdict;
}

} // namespace

#ifdef VERIF_FUZZ
#include <fuzzer/FuzzedDataProvider.h>

extern "C" int LLVMFuzzerInitialize(int *, char ***) { p_libsys_init(); vl::fuzz_init(); return 0; }
extern "C" int LLVMFuzzerTestOneInput(const uint8_t *data, size_t size) {
  FuzzedDataProvider fdp(data, size);
  static const std::string prop = vl::env("VERIF_PROP", "C12");
  Case c;
  c.type = fdp.ConsumeIntegralInRange<int>(0, 2); c.cmp = fdp.ConsumeIntegralInRange<int>(0, 2); c.ctor = fdp.ConsumeIntegralInRange<int>(0, 2); c.notif = fdp.ConsumeIntegralInRange<int>(0, 63);
  static const int us[] = {3, 8, 64, 5000}; c.universe = us[fdp.ConsumeIntegralInRange<int>(0, 3)];
  if (prop == "C13" && c.type == 0) c.type = 1; if (prop == "C14") c.ctor = 2;
  while (fdp.remaining_bytes() > 0 && c.ops.size() < 400) {
    static const char kinds[] = {'i', 'i', 'i', 'r', 'r', 'l', 'f', 'c', 'B', 'D', 'F', 'I'};
    Op o; o.kind = kinds[fdp.ConsumeIntegralInRange<int>(0, 11)];
    o.a = fdp.ConsumeIntegralInRange<int>(o.kind == 'f' ? -1 : 0, o.kind == 'B' || o.kind == 'D' ? 4 : (c.universe > 64 ? 5000 : c.universe));
    if (o.kind == 'B') { o.b = fdp.ConsumeIntegralInRange<int>(0, c.universe); o.c = fdp.ConsumeIntegralInRange<int>(1, 300); o.d = fdp.ConsumeIntegralInRange<int>(1, 3); }
    if (o.kind == 'D') o.b = fdp.ConsumeIntegralInRange<int>(1, 200);
    c.ops.push_back(o);
  }
  std::string text = to_text(c);
  vl::set_current_case("fuzz", text);
  Outcome o = run_case(c, prop);
  vl::stats().record(text, o.nontrivial, o.fp);
  if (!o.verdict.empty()) vl::fuzz_report("fuzz", text, prop + ":" + o.klass + ": " + o.verdict, o.klass);
  return 0;
}
#else
int main(int argc, char **argv) {
  p_libsys_init();
  vl::cpu_guard(60); // non-termination oracle: user CPU time per case, see vlib.h
  return vl::harness_main(argc, argv, run_generated, run_replay);
}
#endif
