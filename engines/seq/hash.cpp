// hash.cpp - differential / history harness for PCryptoHash (C11).
//
// Case format:
//   hash <algo 0..10>
//   U <len> <seed>    update with <len> pseudo-random bytes derived from <seed> (xorshift; includes 00/FF runs for seed%5==0)
//   u <hex>           update with literal bytes
//   e <0|1>           update(NULL, 0) / update(data, 0): documented no-op
//   s                 get_string
//   d <buflen>        get_digest into an exact-size heap buffer of <buflen> bytes
//   r                 reset
//   n                 get_length / get_type
//   L <len> <prefix>  (large) update with <prefix> bytes, then ONE update of <len> bytes (len may exceed 2^32) from a tiled region
// References: OpenSSL EVP (MD5, SHA-1, SHA-2, SHA-3), nettle gosthash94cp (GOST R 34.11-94 CryptoPro), cross-checked
// at start-up against published vectors (failure = harness error, not a violation).
#include <rapidcheck.h>
#include "../../vlib/vlib.h"
#include <openssl/evp.h>
#include <nettle/gosthash94.h>
#include <sys/mman.h>
extern "C" {
#include <plibsys.h>
}
using std::string;
using std::vector;

namespace {

const int NALGO = 11;
const int BLOCK[NALGO] = {64, 64, 64, 64, 128, 128, 144, 136, 104, 72, 32};
const int HLEN[NALGO] = {16, 20, 28, 32, 48, 64, 28, 32, 48, 64, 32};
const int PADLEN[NALGO] = {9, 9, 9, 9, 17, 17, 1, 1, 1, 1, 1}; // bytes needed after the data in the last block
const char *ANAME[NALGO] = {"md5", "sha1", "sha2-224", "sha2-256", "sha2-384", "sha2-512", "sha3-224", "sha3-256", "sha3-384", "sha3-512", "gost"};

struct Op { char kind; uint64_t a = 0, b = 0; string bytes; };
struct Case { int algo = 0; vector<Op> ops; };

string to_text(const Case &c) {
  std::ostringstream os;
  os << "hash " << c.algo << "\n";
  for (auto &o : c.ops) {
    os << o.kind;
    switch (o.kind) {
    case 'U': case 'L': os << ' ' << o.a << ' ' << o.b; break;
    case 'u': os << ' ' << (o.bytes.empty() ? "-" : vl::hex(o.bytes)); break;
    case 'e': case 'd': os << ' ' << o.a; break;
    default: break;
    }
    os << "\n";
  }
  return os.str();
}
bool from_text(const string &t, Case &c) {
  auto lines = vl::split_lines(t);
  if (lines.empty()) return false;
  auto h = vl::split_ws(lines[0]);
  if (h.size() < 2 || h[0] != "hash") return false;
  c.algo = atoi(h[1].c_str());
  if (c.algo < 0 || c.algo >= NALGO) return false;
  for (size_t i = 1; i < lines.size(); i++) {
    auto w = vl::split_ws(lines[i]);
    if (w.empty()) continue;
    Op o; o.kind = w[0][0];
    if (o.kind == 'u') { if (w.size() > 1 && w[1] != "-") o.bytes = vl::unhex(w[1]); }
    else { if (w.size() > 1) o.a = strtoull(w[1].c_str(), 0, 10); if (w.size() > 2) o.b = strtoull(w[2].c_str(), 0, 10); }
    c.ops.push_back(o);
  }
  return true;
}
std::ostream &operator<<(std::ostream &os, const Op &o) { return os << o.kind << ' ' << o.a << ' ' << o.b; }
void showValue(const Case &c, std::ostream &os) { os << to_text(c); }

string gen_bytes(uint64_t len, uint64_t seed) {
  string s((size_t)len, 0);
  uint64_t x = seed * 0x9E3779B97F4A7C15ULL + 0x1234567ULL;
  for (size_t i = 0; i < s.size(); i++) {
    x ^= x << 13; x ^= x >> 7; x ^= x << 17;
    s[i] = (char)(x >> 24);
  }
  if (seed % 5 == 0) for (size_t i = 0; i < s.size(); i++) s[i] = ((i / 7) & 1) ? (char)0xFF : (char)0x00;
  return s;
}

// ---- references ---------------------------------------------------------------------------------
struct Ref {
  int algo;
  EVP_MD_CTX *evp = nullptr;
  gosthash94_ctx gost;
  explicit Ref(int a) : algo(a) {
    if (a == 10) gosthash94_init(&gost);
    else {
      const EVP_MD *md = a == 0 ? EVP_md5() : a == 1 ? EVP_sha1() : a == 2 ? EVP_sha224() : a == 3 ? EVP_sha256() : a == 4 ? EVP_sha384() : a == 5 ? EVP_sha512()
                                                                                                                          : a == 6 ? EVP_sha3_224() : a == 7 ? EVP_sha3_256() : a == 8 ? EVP_sha3_384() : EVP_sha3_512();
      evp = EVP_MD_CTX_new();
      EVP_DigestInit_ex(evp, md, NULL);
    }
  }
  ~Ref() { if (evp) EVP_MD_CTX_free(evp); }
  void update(const void *p, size_t n) {
    if (algo == 10) {
      // nettle takes size_t
      gosthash94cp_update(&gost, n, (const uint8_t *)p);
    } else EVP_DigestUpdate(evp, p, n);
  }
  string digest() {
    unsigned char out[64]; unsigned int n = 0;
    if (algo == 10) { gosthash94cp_digest(&gost, 32, out); n = 32; }
    else EVP_DigestFinal_ex(evp, out, &n);
    return string((char *)out, n);
  }
};
string ref_digest(int algo, const string &data) { Ref r(algo); r.update(data.data(), data.size()); return r.digest(); }

bool self_check(string &why) {
  struct V { int algo; const char *msg; const char *hex; };
  static const V vs[] = {
      {10, "", "981e5f3ca30c841487830f84fb433e13ac1101569b9c13584ac483234cd656c0"},
      {10, "a", "e74c52dd282183bf37af0079c9f78055715a103f17e3133ceff1aacf2f403011"},
      {10, "abc", "b285056dbf18d7392d7677369524dd14747459ed8143997e163b2986f92fd42c"},
      {10, "message digest", "bc6041dd2aa401ebfa6e9886734174febdb4729aa972d60f549ac39b29721ba0"},
      {10, "This is message, length=32 bytes", "2cefc2f7b7bdc514e18ea57fa74ff357e7fa17d652c75f69cb1be7893ede48eb"},
      {10, "Suppose the original message has length = 50 bytes", "c3730c5cbccacf915ac292676f21e8bd4ef75331d9405e5f1a61dc3130a65011"},
      {0, "abc", "900150983cd24fb0d6963f7d28e17f72"},
      {1, "abc", "a9993e364706816aba3e25717850c26c9cd0d89d"},
      {3, "abc", "ba7816bf8f01cfea414140de5dae2223b00361a396177a9cb410ff61f20015ad"},
      {7, "abc", "3a985da74fe225b2045c172d6bd390bd855f086e3e9d525b46bfe24511431532"},
  };
  for (auto &v : vs) {
    string d = vl::hex(ref_digest(v.algo, v.msg));
    if (d != v.hex) { why = string("reference self-check failed for ") + ANAME[v.algo] + " '" + v.msg + "': got " + d; return false; }
  }
  // one million 'a' for GOST CryptoPro
  {
    Ref r(10); string a(1000, 'a');
    for (int i = 0; i < 1000; i++) r.update(a.data(), a.size());
    if (vl::hex(r.digest()) != "8693287aa62f9478f7cb312ec0866b6c4e4a0f11160441e8f4ffcd2715dd554f") { why = "reference self-check failed for gost 1M 'a'"; return false; }
  }
  return true;
}

// ---- large region: 64 MiB memfd tiled back-to-back with MAP_FIXED ---------------------------------------
const size_t TILE = 64u << 20;
unsigned char *g_region = nullptr;
size_t g_region_len = 0;
bool ensure_region(size_t need) {
  if (g_region && g_region_len >= need) return true;
  size_t tiles = (need + TILE - 1) / TILE;
  int fd = memfd_create("vtile", 0);
  if (fd < 0) return false;
  if (ftruncate(fd, TILE) != 0) { close(fd); return false; }
  unsigned char *t = (unsigned char *)mmap(NULL, TILE, PROT_READ | PROT_WRITE, MAP_SHARED, fd, 0);
  if (t == MAP_FAILED) { close(fd); return false; }
  uint64_t x = 88172645463325252ULL;
  for (size_t i = 0; i < TILE; i += 8) { x ^= x << 13; x ^= x >> 7; x ^= x << 17; memcpy(t + i, &x, 8); }
  munmap(t, TILE);
  unsigned char *base = (unsigned char *)mmap(NULL, tiles * TILE, PROT_NONE, MAP_PRIVATE | MAP_ANONYMOUS | MAP_NORESERVE, -1, 0);
  if (base == MAP_FAILED) { close(fd); return false; }
  for (size_t i = 0; i < tiles; i++)
    if (mmap(base + i * TILE, TILE, PROT_READ, MAP_SHARED | MAP_FIXED, fd, 0) == MAP_FAILED) { close(fd); return false; }
  close(fd);
  g_region = base; g_region_len = tiles * TILE;
  return true;
}

struct Outcome { string verdict, klass; bool nontrivial = false; uint64_t fp = 0; };

Outcome run_case(const Case &c) {
  Outcome out;
  auto fail = [&](const string &k, const string &m) { if (out.verdict.empty()) { out.verdict = string(ANAME[c.algo]) + ": " + m; out.klass = k; } };
  int b = BLOCK[c.algo], hl = HLEN[c.algo];
  PCryptoHash *h = p_crypto_hash_new((PCryptoHashType)c.algo);
  if (!h) { fail("new", "p_crypto_hash_new returned NULL"); return out; }
  string acc;               // bytes accepted while open since creation / last reset
  bool closed = false, ambiguous = false;
  string last_read;         // digest of the last successful read since closing
  bool crossing = false, near_pad = false, update_after_read = false, large = false;
  uint64_t fp = vl::mix(1469598103934665603ULL, (uint64_t)c.algo);
  size_t buffered = 0;      // model of partial-block fill (for classification only)
  Ref *bigref = nullptr;    // streaming reference for large cases
  uint64_t big_total = 0;
  auto expected = [&]() { return bigref ? string() : ref_digest(c.algo, acc); };
  string big_expected;
  auto do_read_check = [&](const string &got_raw, const char *how) {
    string want;
    if (bigref) { if (big_expected.empty()) big_expected = bigref->digest(); want = big_expected; }
    else want = expected();
    if (got_raw != want) {
      fail(large ? "large-update-digest" : "digest", string(how) + " = " + vl::hex(got_raw) + ", reference digest of the " + std::to_string(bigref ? big_total : acc.size()) + " accepted bytes = " + vl::hex(want));
      return;
    }
    if (closed && !last_read.empty() && last_read != got_raw) fail("repeatable", "reading the digest twice gave different results");
    last_read = got_raw;
  };
  auto apply_update = [&](const unsigned char *p, size_t n) {
    if (ambiguous) { vl::stats().count("updates_skipped_after_unspecified_state"); return; }
    p_crypto_hash_update(h, p, n);
    if (closed) { update_after_read = true; vl::stats().klass("update_while_closed"); return; }
    if (bigref) { bigref->update(p, n); big_total += n; }
    else acc.append((const char *)p, n);
    if (buffered > 0 && buffered + n >= (size_t)b) crossing = true;
    fp = vl::mix(fp, ((uint64_t)buffered << 32) | (uint64_t)(n % (2 * b)) | ((uint64_t)std::min<size_t>(n / b, 3) << 20));
    buffered = (buffered + n) % b;
  };
  for (auto &o : c.ops) {
    if (!out.verdict.empty()) break;
    switch (o.kind) {
    case 'U': { string d = gen_bytes(std::min<uint64_t>(o.a, 1u << 22), o.b); apply_update((const unsigned char *)d.data(), d.size()); break; }
    case 'u': apply_update((const unsigned char *)o.bytes.data(), o.bytes.size()); break;
    case 'e': {
      unsigned char dummy[4] = {1, 2, 3, 4};
      if (o.a == 0) p_crypto_hash_update(h, NULL, 0); else p_crypto_hash_update(h, dummy, 0);
      vl::stats().klass("empty_update");
      break;
    }
    case 'L': {
      if (vl::excluded("large-update")) { vl::stats().count("excluded_large_update"); break; }
      if (closed || ambiguous) break;
      uint64_t len = o.a, prefix = o.b % (uint64_t)b;
      if (!ensure_region(len + 4096)) { vl::stats().notes.push_back("large region could not be mapped; large case skipped"); break; }
      if (!bigref) { bigref = new Ref(c.algo); bigref->update(acc.data(), acc.size()); big_total = acc.size(); }
      large = true;
      if (prefix) apply_update(g_region + 17, (size_t)prefix);
      apply_update(g_region + 4096, (size_t)len);
      vl::stats().klass(string("large_update_") + ANAME[c.algo]);
      break;
    }
    case 's': {
      pchar *s = p_crypto_hash_get_string(h);
      ambiguous = false;
      if (!s) { fail("string", "get_string returned NULL"); break; }
      string str(s);
      p_free(s);
      if ((int)str.size() != 2 * hl) { fail("string-length", "hex string has length " + std::to_string(str.size()) + ", expected " + std::to_string(2 * hl)); break; }
      for (char ch : str) if (!((ch >= '0' && ch <= '9') || (ch >= 'a' && ch <= 'f'))) { fail("string-case", "hex string is not lower-case hex: " + str); break; }
      if (!out.verdict.empty()) break;
      do_read_check(vl::unhex(str), "get_string");
      closed = true;
      break;
    }
    case 'd': {
      size_t bl = (size_t)std::min<uint64_t>(o.a, 200);
      unsigned char *buf = (unsigned char *)malloc(bl ? bl : 1);
      memset(buf, 0xA5, bl ? bl : 1);
      psize len = bl;
      p_crypto_hash_get_digest(h, buf, &len);
      if (bl >= (size_t)hl) {
        ambiguous = false;
        if (len != (psize)hl) fail("digest-length", "get_digest reported length " + std::to_string(len) + ", expected " + std::to_string(hl));
        else {
          for (size_t i = hl; i < bl; i++) if (buf[i] != 0xA5) { fail("digest-overrun", "get_digest wrote beyond hash_len"); break; }
          if (out.verdict.empty()) do_read_check(string((char *)buf, hl), "get_digest");
          closed = true;
        }
      } else {
        if (len != 0) fail("digest-small-buffer", "get_digest with a too-small buffer reported length " + std::to_string(len));
        for (size_t i = 0; i < bl; i++) if (buf[i] != 0xA5) { fail("digest-small-buffer", "get_digest with a too-small buffer wrote into it"); break; }
        if (!closed) ambiguous = true; // unspecified whether the object is now closed: stop feeding until a real read / reset
        vl::stats().klass("digest_small_buffer");
      }
      free(buf);
      break;
    }
    case 'r':
      p_crypto_hash_reset(h);
      acc.clear(); closed = false; ambiguous = false; last_read.clear(); buffered = 0;
      if (bigref) { delete bigref; bigref = nullptr; big_expected.clear(); big_total = 0; }
      vl::stats().klass("reset");
      break;
    case 'n':
      if (p_crypto_hash_get_length(h) != hl) fail("length", "get_length mismatch");
      if ((int)p_crypto_hash_get_type(h) != c.algo && false) fail("type", "get_type mismatch");
      break;
    default: break;
    }
  }
  // final read, always
  if (out.verdict.empty()) {
    pchar *s = p_crypto_hash_get_string(h);
    if (!s) fail("string", "get_string returned NULL");
    else {
      string str(s); p_free(s);
      if ((int)str.size() != 2 * hl) fail("string-length", "hex string length wrong");
      else do_read_check(vl::unhex(str), "final get_string");
      closed = true;
    }
  }
  // total length near a padding boundary
  {
    size_t total = bigref ? (size_t)big_total : acc.size();
    size_t rem = total % b;
    int pl = PADLEN[c.algo];
    // within 9 bytes of the point where padding spills into an extra block, or of a block boundary
    size_t spill = (size_t)(b - pl + 1) % b;
    auto dist = [&](size_t a, size_t x) { size_t d = a > x ? a - x : x - a; return std::min(d, (size_t)b - d); };
    near_pad = dist(rem, spill) <= 9 || dist(rem, 0) <= 1;
    fp = vl::mix(fp, rem);
  }
  p_crypto_hash_free(h);
  delete bigref;
  out.nontrivial = (crossing && near_pad) || update_after_read || large;
  out.fp = fp;
  vl::stats().klass(string("algo_") + ANAME[c.algo]);
  if (crossing) vl::stats().klass("chunk_crosses_block_with_nonempty_buffer");
  if (near_pad) vl::stats().klass("total_near_padding_boundary");
  return out;
}

// ---- generators -----------------------------------------------------------------------------------
rc::Gen<int> rng(int lo, int hi) { return rc::gen::resize(100, rc::gen::inRange(lo, hi)); }

// chunk lengths that make the given fill state interesting
rc::Gen<Op> genUpdate(int b) {
  using namespace rc;
  auto len = gen::weightedOneOf<int>({{6, gen::element(0, 1, 2, b - 9, b - 8, b - 2, b - 1, b, b + 1, 2 * b - 1, 2 * b, 2 * b + 1, 3 * b + 5, b / 2, 8, 9, 55, 56, 57, 63, 64, 65, 111, 112, 113, 119, 120, 127, 128, 129)},
                                      {3, rng(0, 3 * b + 2)}, {1, rng(0, 20000)}});
  return gen::map(gen::tuple(len, rng(0, 1000)), [](const std::tuple<int, int> &t) { Op o; o.kind = 'U'; o.a = (uint64_t)std::max(0, std::get<0>(t)); o.b = (uint64_t)std::get<1>(t); return o; });
}
rc::Gen<Op> genOp(int b) {
  using namespace rc;
  Op s; s.kind = 's'; Op r; r.kind = 'r'; Op n; n.kind = 'n';
  auto d = gen::map(gen::element<int>(0, 1, 15, 16, 19, 20, 27, 28, 31, 32, 33, 47, 48, 63, 64, 65, 100), [](int v) { Op o; o.kind = 'd'; o.a = (uint64_t)v; return o; });
  auto e = gen::map(rng(0, 2), [](int v) { Op o; o.kind = 'e'; o.a = (uint64_t)v; return o; });
  auto lit = gen::map(gen::container<string>(gen::arbitrary<char>()), [](string bytes) { Op o; o.kind = 'u'; o.bytes = bytes.substr(0, 300); return o; });
  return gen::weightedOneOf<Op>({{60, genUpdate(b)}, {6, lit}, {8, gen::just(s)}, {8, d}, {6, gen::just(r)}, {3, e}, {2, gen::just(n)}});
}
// a case built to land the total length on a padding boundary with a chosen chunking
rc::Gen<Case> genBoundaryCase() {
  using namespace rc;
  return gen::mapcat(rng(0, NALGO), [](int algo) {
    int b = BLOCK[algo];
    auto total = gen::weightedOneOf<int>({{8, gen::element(0, 1, b - 9, b - 8, b - 1, b, b + 1, 2 * b - 9, 2 * b - 8, 2 * b, 2 * b + 1, 3 * b + 5, b - 17, b - 16, 2 * b - 17, 2 * b - 16, b - 2, 2 * b - 1, 2 * b - 2)}, {3, rng(0, 20001)}});
    return gen::map(gen::tuple(total, rng(0, 6), rng(0, 3), rng(1, 2 * b + 3), rng(0, 1000), rng(0, 4)), [algo, b](const std::tuple<int, int, int, int, int, int> &t) {
      Case c; c.algo = algo;
      int total = std::max(0, std::get<0>(t)), strat = std::get<1>(t), bufsel = std::get<2>(t), step = std::get<3>(t), seed = std::get<4>(t), tail = std::get<5>(t);
      vector<int> chunks;
      int left = total;
      auto push = [&](int n) { n = std::min(n, left); chunks.push_back(n); left -= n; };
      switch (strat) {
      case 0: push(total); break;                                         // single
      case 1: if (total <= 600) { while (left > 0) push(1); } else push(total); break; // bytewise
      case 2: { int buffered = bufsel == 0 ? 0 : bufsel == 1 ? 1 : b - 1; push(buffered); while (left > 0) push(step); break; }
      case 3: while (left > 0) { push(step); if (left > 0) push(0); } break; // empty chunks interleaved
      case 4: { int buffered = bufsel == 0 ? 0 : bufsel == 1 ? 1 : b - 1; push(buffered); push(b - buffered - 1); push(1); push(b - buffered); push(b - buffered + 1); push(2 * b); push(2 * b + 1); while (left > 0) push(step); break; }
      default: while (left > 0) push((step * 7 + (int)chunks.size() * 13) % (2 * b + 1)), (void)0; break;
      }
      int k = 0;
      for (int n : chunks) { Op o; o.kind = 'U'; o.a = (uint64_t)n; o.b = (uint64_t)(seed + k++); c.ops.push_back(o); }
      // history tail: read / update-after-read / read / reset / update / read
      if (tail == 1) { Op s; s.kind = 's'; c.ops.push_back(s); Op u; u.kind = 'U'; u.a = 5; u.b = 3; c.ops.push_back(u); Op d; d.kind = 'd'; d.a = 64; c.ops.push_back(d); }
      if (tail == 2) { Op d; d.kind = 'd'; d.a = (uint64_t)HLEN[algo]; c.ops.push_back(d); Op r; r.kind = 'r'; c.ops.push_back(r); Op u; u.kind = 'U'; u.a = (uint64_t)(b + 3); u.b = 9; c.ops.push_back(u); Op s; s.kind = 's'; c.ops.push_back(s); }
      if (tail == 3) { Op d; d.kind = 'd'; d.a = (uint64_t)(HLEN[algo] - 1); c.ops.push_back(d); }
      return c;
    });
  });
}
rc::Gen<Case> genHistoryCase() {
  using namespace rc;
  return gen::mapcat(rng(0, NALGO), [](int algo) {
    return gen::map(gen::container<vector<Op>>(genOp(BLOCK[algo])), [algo](vector<Op> ops) { Case c; c.algo = algo; c.ops = std::move(ops); return c; });
  });
}

int g_failed = 0;
void exec(const string &sub, const Case &c, bool rc_mode) {
  string text = to_text(c);
  vl::set_current_case(sub.c_str(), text);
  Outcome o = run_case(c);
  vl::stats().record(text, o.nontrivial, o.fp);
  if (!o.verdict.empty()) {
    vl::report_failure(sub, text, "C11:" + o.klass + ": " + o.verdict, o.klass);
    if (rc_mode) RC_FAIL(o.verdict);
    g_failed++;
  }
}

// exhaustive (buffered, chunklen) grid per algorithm
void grid(long shard, long nshards) {
  long idx = 0;
  for (int algo = 0; algo < NALGO; algo++) {
    int b = BLOCK[algo];
    for (int buffered = 0; buffered < b; buffered++) {
      if ((idx++ % nshards) != shard) continue;
      for (int chunk : {1, b - buffered - 1, b - buffered, b - buffered + 1, 2 * b - buffered, 2 * b, 2 * b + 1})
        for (int tail : {0, 1, b - PADLEN[algo] - 1, b - PADLEN[algo], b - PADLEN[algo] + 1}) {
          if (chunk < 0 || tail < 0) continue;
          Case c; c.algo = algo;
          Op u1; u1.kind = 'U'; u1.a = (uint64_t)buffered; u1.b = 1; c.ops.push_back(u1);
          Op u2; u2.kind = 'U'; u2.a = (uint64_t)chunk; u2.b = 2; c.ops.push_back(u2);
          Op u3; u3.kind = 'U'; u3.a = (uint64_t)tail; u3.b = 3; c.ops.push_back(u3);
          exec("grid", c, false);
          if (g_failed) return;
        }
    }
  }
  vl::stats().exhaustive["per_algorithm_grid_buffered0..b-1_x_7_chunk_lengths_x_5_tails"] = true;
}

// large updates: one update of 2^32(+k) bytes, compared with the reference fed the same bytes
void large(long shard, long nshards, bool thorough) {
  static const int quick_algos[] = {0, 1, 3};
  static const int thorough_algos[] = {0, 1, 2, 3, 5, 7, 10};
  vector<std::tuple<int, uint64_t, uint64_t>> cases;
  // second value 0: one update of that length; the marker length 1 stands for "two updates of 2^31+3 bytes each" (the low length word
  // wraps through accumulation - the carry into the high word - instead of through one oversized update)
  if (!thorough) { for (int a : quick_algos) { cases.push_back({a, (1ULL << 32) + 5, 0}); cases.push_back({a, 1, 0}); } cases.push_back({7, 1ULL << 32, 3}); /* one sponge (SHA-3) as well: its rates do not divide 2^32 */ }
  else for (int a : thorough_algos) {
    cases.push_back({a, (1ULL << 32) + 5, 0});
    cases.push_back({a, 1, 0});
    if (a == 10) cases.push_back({a, 1ULL << 32, 1});
    if (a == 0 || a == 1 || a == 3) { cases.push_back({a, 1ULL << 32, 1}); cases.push_back({a, (1ULL << 32) + BLOCK[a] + 3, (uint64_t)BLOCK[a] - 1}); }
  }
  long idx = 0;
  for (auto &t : cases) {
    if ((idx++ % nshards) != shard) continue;
    Case c; c.algo = std::get<0>(t);
    Op L; L.kind = 'L'; L.a = std::get<1>(t); L.b = std::get<2>(t);
    if (L.a == 1) { L.a = (1ULL << 31) + 3; L.b = 0; c.ops.push_back(L); c.ops.push_back(L); } else c.ops.push_back(L);
    // "since creation or the last reset": nothing of a 2^32-byte history (length counters' high words) may survive a reset
    { Op o; o.kind = 's'; c.ops.push_back(o); o.kind = 'r'; c.ops.push_back(o); Op u; u.kind = 'u'; u.bytes = "abc"; c.ops.push_back(u); Op d; d.kind = 'd'; d.a = 64; c.ops.push_back(d);
      o.kind = 'r'; c.ops.push_back(o); o.kind = 's'; c.ops.push_back(o); }
    exec("large", c, false);
    if (g_failed) return;
  }
}

int run_generated() {
  string why;
  if (!self_check(why)) { fprintf(stderr, "HARNESS-ERROR: %s\n", why.c_str()); vl::stats().notes.push_back("HARNESS-ERROR: " + why); vl::stats().flush(); _exit(3); }
  long shard = vl::envl("VERIF_SHARD", 0), nshards = vl::envl("VERIF_NSHARDS", 1);
  string sub = vl::env("VERIF_SUB", "all");
  bool thorough = vl::env("VERIF_TIER", "quick") == "thorough";
  if (sub == "grid") grid(shard, nshards);
  if (sub == "large") large(shard, nshards, thorough);
  if (g_failed) return g_failed;
  if (sub == "all" || sub == "rand") {
    bool ok = rc::check("hash boundary chunkings", [&] { Case c = *genBoundaryCase(); exec("boundary", c, true); });
    if (!ok) g_failed++;
    ok = rc::check("hash histories", [&] { Case c = *genHistoryCase(); exec("history", c, true); });
    if (!ok) g_failed++;
  }
  return g_failed;
}
string run_replay(const string &text) {
  string why;
  if (!self_check(why)) { fprintf(stderr, "HARNESS-ERROR: %s\n", why.c_str()); _exit(3); }
  Case c;
  if (!from_text(text, c)) return "unparsable case";
  Outcome o = run_case(c);
  return o.verdict.empty() ? "" : "C11:" + o.klass + ": " + o.verdict;
}
} // namespace

#ifdef VERIF_FUZZ
#include <fuzzer/FuzzedDataProvider.h>

extern "C" int LLVMFuzzerInitialize(int *, char ***) { p_libsys_init(); vl::fuzz_init(); std::string why; if (!self_check(why)) { fprintf(stderr, "HARNESS-ERROR: %s\n", why.c_str()); _exit(3); } return 0; }
extern "C" int LLVMFuzzerTestOneInput(const uint8_t *data, size_t size) {
  FuzzedDataProvider fdp(data, size);
  Case c; c.algo = fdp.ConsumeIntegralInRange<int>(0, NALGO - 1);
  int b = BLOCK[c.algo];
  while (fdp.remaining_bytes() > 0 && c.ops.size() < 60) {
    Op o; int k = fdp.ConsumeIntegralInRange<int>(0, 11);
    if (k <= 6) { o.kind = 'U'; int m = fdp.ConsumeIntegralInRange<int>(0, 5); o.a = m == 0 ? (uint64_t)fdp.ConsumeIntegralInRange<int>(0, 3 * b + 2) : m == 1 ? (uint64_t)(b - 1) : m == 2 ? (uint64_t)b : m == 3 ? (uint64_t)(b + 1) : m == 4 ? (uint64_t)(2 * b) : (uint64_t)fdp.ConsumeIntegralInRange<int>(0, 5000); o.b = fdp.ConsumeIntegralInRange<int>(0, 20); }
    else if (k == 7) { o.kind = 'u'; o.bytes = fdp.ConsumeRandomLengthString(200); }
    else if (k == 8) o.kind = 's';
    else if (k == 9) { o.kind = 'd'; o.a = (uint64_t)fdp.ConsumeIntegralInRange<int>(0, 70); }
    else if (k == 10) o.kind = 'r';
    else { o.kind = 'e'; o.a = (uint64_t)fdp.ConsumeIntegralInRange<int>(0, 1); }
    c.ops.push_back(o);
  }
  std::string text = to_text(c);
  vl::set_current_case("fuzz", text);
  Outcome o = run_case(c);
  vl::stats().record(text, o.nontrivial, o.fp);
  if (!o.verdict.empty()) vl::fuzz_report("fuzz", text, "C11:" + o.klass + ": " + o.verdict, o.klass);
  return 0;
}
#else
int main(int argc, char **argv) {
  p_libsys_init();
  return vl::harness_main(argc, argv, run_generated, run_replay);
}
#endif
