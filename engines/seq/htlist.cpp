// htlist.cpp - model-based harness for PHashTable and PList (C15).
//
// Case format:
//   ht                      | list
//   i <key> <val>             a <val>      append
//   r <key>                   p <val>      prepend
//   l <key>                   r <val>      remove first occurrence
//   k   (keys)                v            reverse
//   v   (values)              t            last
//   b <val> <cmp 0|1|2>       n            length
//   F   (free + new)          e            foreach
//                             F            free (list becomes empty)
// <key>/<val> are "<class>.<index>" tokens mapped to pointer-sized bit patterns (never dereferenced):
//   0 NULL  1 all-ones  2 small int  3 negative int  4 low word in [INT_MAX-40,INT_MAX]
//   5 high-word-only difference  6 same-bucket family base+101*j  7 pseudo-random 64 bit
//   8 INT_MAX-adjacent low word with high word set   9 low word around INT_MIN / 0xFFFFFFFF
#include <rapidcheck.h>
#include "../../vlib/vlib.h"
extern "C" {
#include <plibsys.h>
}
using std::string;
using std::vector;

namespace {

struct Tok { int cls = 2, idx = 0; };
uintptr_t bits(const Tok &t) {
  uint64_t i = (uint64_t)(unsigned)t.idx;
  switch (t.cls) {
  case 0: return 0;
  case 1: return ~(uintptr_t)0;
  case 2: return (uintptr_t)i;
  case 3: return (uintptr_t)(-(int64_t)(i + 1));
  case 4: return (uintptr_t)(0x7FFFFFFFull - (i % 41));
  case 5: return (uintptr_t)(((i + 1) << 32) | 0x1234ull);
  case 6: return (uintptr_t)(0x5000ull + 101ull * i);
  case 7: return (uintptr_t)vl::mix(0x1234567, i);
  case 8: return (uintptr_t)(((i % 7 + 1) << 32) | (0x7FFFFFFFull - (i % 41)));
  default: return (uintptr_t)((i & 1) ? (0x80000000ull + (i >> 1)) : (0xFFFFFFFFull - (i >> 1)));
  }
}
struct Op { char kind; Tok a, b; int c = 0; };
struct Case { int which = 0; vector<Op> ops; }; // 0 ht 1 list

string tok(const Tok &t) { return std::to_string(t.cls) + "." + std::to_string(t.idx); }
Tok untok(const string &s) { Tok t; sscanf(s.c_str(), "%d.%d", &t.cls, &t.idx); return t; }

string to_text(const Case &c) {
  std::ostringstream os;
  os << (c.which ? "list" : "ht") << "\n";
  for (auto &o : c.ops) {
    os << o.kind;
    if (c.which == 0) {
      if (o.kind == 'i') os << ' ' << tok(o.a) << ' ' << tok(o.b);
      else if (o.kind == 'r' || o.kind == 'l') os << ' ' << tok(o.a);
      else if (o.kind == 'b') os << ' ' << tok(o.a) << ' ' << o.c;
    } else {
      if (o.kind == 'a' || o.kind == 'p' || o.kind == 'r') os << ' ' << tok(o.a);
    }
    os << "\n";
  }
  return os.str();
}
bool from_text(const string &t, Case &c) {
  auto lines = vl::split_lines(t);
  if (lines.empty()) return false;
  if (lines[0] == "ht") c.which = 0; else if (lines[0] == "list") c.which = 1; else return false;
  for (size_t i = 1; i < lines.size(); i++) {
    auto w = vl::split_ws(lines[i]);
    if (w.empty()) continue;
    Op o; o.kind = w[0][0];
    if (w.size() > 1) o.a = untok(w[1]);
    if (w.size() > 2) { if (o.kind == 'b') o.c = atoi(w[2].c_str()); else o.b = untok(w[2]); }
    c.ops.push_back(o);
  }
  return true;
}
std::ostream &operator<<(std::ostream &os, const Op &o) { return os << o.kind << ' ' << tok(o.a) << ' ' << tok(o.b) << ' ' << o.c; }
void showValue(const Case &c, std::ostream &os) { os << to_text(c); }

// comparators for lookup_by_value; treat values as integers, never dereference
int g_cmp_mode = 0;
pint valcmp(pconstpointer a, pconstpointer b) {
  uintptr_t x = (uintptr_t)a, y = (uintptr_t)b;
  // results of any magnitude and either sign for "different" (strcmp / difference style: only zero means equal)
  if (g_cmp_mode == 1) return x == y ? 0 : (x < y ? -1 - (pint)((y - x) % 1000) : 1 + (pint)((x - y) % 100000));
  // mode 2: equality modulo 16 (several values "equal")
  return (x & 15) == (y & 15) ? 0 : ((x & 15) < (y & 15) ? -7 : 1);
}

vector<uintptr_t> list_to_vec(PList *l, bool &bad) {
  vector<uintptr_t> v;
  size_t guard = 0;
  for (PList *c = l; c; c = c->next) { v.push_back((uintptr_t)c->data); if (++guard > 10000000) { bad = true; break; } }
  return v;
}

vector<uintptr_t> g_each;
void each_cb(ppointer data, ppointer user) { (void)user; g_each.push_back((uintptr_t)data); }
uintptr_t g_each_user_seen;
void each_cb2(ppointer data, ppointer user) { g_each.push_back((uintptr_t)data); g_each_user_seen = (uintptr_t)user; }

size_t model_bucket(uintptr_t key) {
  int32_t s = (int32_t)((uint32_t)key + 37u);
  return ((size_t)(long)s) % 101;
}

struct Outcome { string verdict, klass; bool nontrivial = false; uint64_t fp = 0; };

Outcome run_ht(const Case &cs) {
  Outcome out;
  auto fail = [&](const string &k, const string &m) { if (out.verdict.empty()) { out.verdict = m; out.klass = k; } };
  std::map<uintptr_t, uintptr_t> model;
  std::map<size_t, vector<uintptr_t>> chains; // classification only (front insertion)
  PHashTable *t = p_hash_table_new();
  if (!t) { fail("new", "p_hash_table_new returned NULL"); return out; }
  bool saw_mid = false, saw_intmax = false, saw_highword = false;
  auto check_multiset = [&](PList *l, vector<uintptr_t> want, const char *what) {
    bool bad = false;
    vector<uintptr_t> got = list_to_vec(l, bad);
    if (bad) { fail("list-cycle", string(what) + ": returned list does not terminate"); return; }
    std::sort(got.begin(), got.end()); std::sort(want.begin(), want.end());
    if (got != want) fail(what, string(what) + ": listed " + std::to_string(got.size()) + " entries, model " + std::to_string(want.size()) + " (or different content)");
    if (p_list_length(l) != got.size()) fail("list-length", "p_list_length disagrees with walked length");
    p_list_free(l);
  };
  auto full_scan = [&]() {
    for (auto &kv : model) {
      ppointer r = p_hash_table_lookup(t, (pconstpointer)kv.first);
      if ((uintptr_t)r != kv.second) { char b[160]; snprintf(b, sizeof b, "lookup(%#lx) returned %#lx, model %#lx", (unsigned long)kv.first, (unsigned long)r, (unsigned long)kv.second); fail("lookup", b); return; }
    }
  };
  for (auto &o : cs.ops) {
    if (!out.verdict.empty()) break;
    uintptr_t k = bits(o.a), v = bits(o.b);
    if (o.kind == 'i' || o.kind == 'r' || o.kind == 'l') {
      if (o.a.cls == 4 || o.a.cls == 8) {
        if (vl::excluded("intmax-key")) { vl::stats().count("excluded_intmax_key"); continue; }
        saw_intmax = true;
      }
      if (o.a.cls == 5 || o.a.cls == 8) saw_highword = true;
    }
    switch (o.kind) {
    case 'i': {
      bool existed = model.count(k);
      p_hash_table_insert(t, (ppointer)k, (ppointer)v);
      model[k] = v;
      if (!existed) { auto &ch = chains[model_bucket(k)]; ch.insert(ch.begin(), k); }
      vl::stats().klass(existed ? "ht_overwrite" : "ht_insert_new");
      break;
    }
    case 'r': {
      bool existed = model.count(k);
      if (existed) {
        auto &ch = chains[model_bucket(k)];
        auto it = std::find(ch.begin(), ch.end(), k);
        size_t pos = it - ch.begin();
        if (ch.size() >= 3 && pos > 0 && pos + 1 < ch.size()) { saw_mid = true; vl::stats().klass("ht_remove_middle_of_chain>=3"); }
        else if (ch.size() >= 2 && pos == 0) vl::stats().klass("ht_remove_chain_head");
        else if (ch.size() >= 2 && pos + 1 == ch.size()) vl::stats().klass("ht_remove_chain_tail");
        else vl::stats().klass("ht_remove_single");
        ch.erase(it);
      } else vl::stats().klass("ht_remove_absent");
      p_hash_table_remove(t, (pconstpointer)k);
      model.erase(k);
      break;
    }
    case 'l': {
      ppointer r = p_hash_table_lookup(t, (pconstpointer)k);
      auto it = model.find(k);
      uintptr_t want = it == model.end() ? ~(uintptr_t)0 : it->second;
      if ((uintptr_t)r != want) { char b[160]; snprintf(b, sizeof b, "lookup(%#lx) returned %#lx, expected %#lx (%s)", (unsigned long)k, (unsigned long)r, (unsigned long)want, it == model.end() ? "absent: marker" : "stored value"); fail("lookup", b); }
      break;
    }
    case 'k': { vector<uintptr_t> w; for (auto &kv : model) w.push_back(kv.first); check_multiset(p_hash_table_keys(t), w, "keys"); break; }
    case 'v': { vector<uintptr_t> w; for (auto &kv : model) w.push_back(kv.second); check_multiset(p_hash_table_values(t), w, "values"); break; }
    case 'b': {
      uintptr_t val = bits(o.a);
      g_cmp_mode = o.c % 3;
      vector<uintptr_t> w;
      for (auto &kv : model) {
        bool eq = g_cmp_mode == 0 ? kv.second == val : g_cmp_mode == 1 ? kv.second == val : ((kv.second & 15) == (val & 15));
        if (eq) w.push_back(kv.first);
      }
      vl::stats().klass(w.size() > 1 ? "ht_by_value_multi" : w.size() == 1 ? "ht_by_value_one" : "ht_by_value_none");
      check_multiset(p_hash_table_lookup_by_value(t, (pconstpointer)val, g_cmp_mode == 0 ? NULL : valcmp), w, "lookup_by_value");
      break;
    }
    case 'F': p_hash_table_free(t); t = p_hash_table_new(); model.clear(); chains.clear(); if (!t) { fail("new", "p_hash_table_new returned NULL"); return out; } break;
    default: break;
    }
    if (out.verdict.empty() && (o.kind == 'i' || o.kind == 'r' || o.kind == 'F')) full_scan();
  }
  if (out.verdict.empty()) {
    full_scan();
    vector<uintptr_t> w; for (auto &kv : model) w.push_back(kv.first);
    check_multiset(p_hash_table_keys(t), w, "keys");
    // absent probes: every generated key class once
    for (int c = 0; c < 10 && out.verdict.empty(); c++) {
      if ((c == 4 || c == 8) && vl::excluded("intmax-key")) continue;
      Tok tk; tk.cls = c; tk.idx = 49;
      uintptr_t k = bits(tk);
      ppointer r = p_hash_table_lookup(t, (pconstpointer)k);
      auto it = model.find(k);
      uintptr_t want = it == model.end() ? ~(uintptr_t)0 : it->second;
      if ((uintptr_t)r != want) fail("lookup", "final probe lookup mismatch");
    }
  }
  if (t) p_hash_table_free(t);
  out.nontrivial = saw_mid || saw_intmax;
  if (saw_intmax) vl::stats().klass("ht_case_with_intmax_adjacent_key");
  if (saw_highword) vl::stats().klass("ht_case_with_highword_key");
  return out;
}

Outcome run_list(const Case &cs) {
  Outcome out;
  auto fail = [&](const string &k, const string &m) { if (out.verdict.empty()) { out.verdict = m; out.klass = k; } };
  vector<uintptr_t> model;
  PList *l = NULL;
  bool saw_dup_remove = false, saw_rev = false;
  auto compare = [&](const char *after) {
    bool bad = false;
    vector<uintptr_t> got = list_to_vec(l, bad);
    if (bad) { fail("list-cycle", string(after) + ": list does not terminate"); return; }
    if (got != model) fail(string("list-") + after, string("after ") + after + ": list content differs from the model sequence (len " + std::to_string(got.size()) + " vs " + std::to_string(model.size()) + ")");
  };
  for (auto &o : cs.ops) {
    if (!out.verdict.empty()) break;
    uintptr_t v = bits(o.a);
    switch (o.kind) {
    case 'a': l = p_list_append(l, (ppointer)v); model.push_back(v); compare("append"); break;
    case 'p': l = p_list_prepend(l, (ppointer)v); model.insert(model.begin(), v); compare("prepend"); break;
    case 'r': {
      auto it = std::find(model.begin(), model.end(), v);
      size_t cnt = std::count(model.begin(), model.end(), v);
      if (cnt >= 2) { saw_dup_remove = true; vl::stats().klass("list_remove_duplicated"); }
      else if (cnt == 1) vl::stats().klass(it == model.begin() ? "list_remove_head" : (it + 1 == model.end() ? "list_remove_tail" : "list_remove_middle"));
      else vl::stats().klass("list_remove_absent");
      if (it != model.end()) model.erase(it);
      l = p_list_remove(l, (pconstpointer)v);
      compare("remove");
      break;
    }
    case 'v': if (model.size() >= 2) { saw_rev = true; vl::stats().klass("list_reverse_len>=2"); } l = p_list_reverse(l); std::reverse(model.begin(), model.end()); compare("reverse"); break;
    case 't': {
      PList *last = p_list_last(l);
      if (model.empty()) { if (last) fail("list-last", "p_list_last of empty list is not NULL"); }
      else if (!last || (uintptr_t)last->data != model.back() || last->next) fail("list-last", "p_list_last does not return the final node");
      break;
    }
    case 'n': if (p_list_length(l) != model.size()) fail("list-length", "p_list_length=" + std::to_string(p_list_length(l)) + " model " + std::to_string(model.size())); break;
    case 'e': {
      g_each.clear(); g_each_user_seen = 0;
      p_list_foreach(l, each_cb2, (ppointer)(uintptr_t)0x77);
      if (g_each != model) fail("list-foreach", "p_list_foreach did not visit the elements in list order");
      if (!model.empty() && g_each_user_seen != 0x77) fail("list-foreach", "p_list_foreach passed wrong user data");
      break;
    }
    case 'F': p_list_free(l); l = NULL; model.clear(); break;
    default: break;
    }
  }
  if (out.verdict.empty()) { compare("end"); if (p_list_length(l) != model.size()) fail("list-length", "final length mismatch"); }
  p_list_free(l);
  out.nontrivial = saw_dup_remove && saw_rev;
  return out;
}

Outcome run_case(const Case &c) {
  Outcome o = c.which ? run_list(c) : run_ht(c);
  o.fp = vl::fnv1a(to_text(c));
  vl::stats().klass(c.which ? "kind_list" : "kind_ht");
  return o;
}

// ---- generators ------------------------------------------------------------------------------
rc::Gen<int> rng(int lo, int hi) { return rc::gen::resize(100, rc::gen::inRange(lo, hi)); }
rc::Gen<Tok> genTok(bool key) {
  using namespace rc;
  auto cls = gen::weightedElement<int>({{1, 0}, {1, 1}, {3, 2}, {2, 3}, {key ? 3 : 1, 4}, {2, 5}, {key ? 8 : 1, 6}, {2, 7}, {key ? 2 : 1, 8}, {1, 9}});
  return gen::map(gen::tuple(cls, gen::weightedOneOf<int>({{4, rng(0, 6)}, {2, rng(0, 50)}})), [](const std::tuple<int, int> &t) { Tok k; k.cls = std::get<0>(t); k.idx = std::get<1>(t); return k; });
}
rc::Gen<Op> genHtOp() {
  using namespace rc;
  auto ins = gen::map(gen::tuple(genTok(true), genTok(false)), [](const std::tuple<Tok, Tok> &t) { Op o; o.kind = 'i'; o.a = std::get<0>(t); o.b = std::get<1>(t); return o; });
  auto rem = gen::map(genTok(true), [](Tok t) { Op o; o.kind = 'r'; o.a = t; return o; });
  auto look = gen::map(genTok(true), [](Tok t) { Op o; o.kind = 'l'; o.a = t; return o; });
  auto byv = gen::map(gen::tuple(genTok(false), rng(0, 3)), [](const std::tuple<Tok, int> &t) { Op o; o.kind = 'b'; o.a = std::get<0>(t); o.c = std::get<1>(t); return o; });
  Op k; k.kind = 'k'; Op v; v.kind = 'v'; Op F; F.kind = 'F';
  return gen::weightedOneOf<Op>({{45, ins}, {25, rem}, {12, look}, {5, byv}, {3, gen::just(k)}, {3, gen::just(v)}, {1, gen::just(F)}});
}
rc::Gen<Op> genListOp() {
  using namespace rc;
  auto mk = [](char kind) { return [kind](Tok t) { Op o; o.kind = kind; o.a = t; return o; }; };
  auto small = gen::map(gen::tuple(gen::weightedElement<int>({{1, 0}, {1, 1}, {6, 2}, {1, 3}, {1, 7}}), rng(0, 5)), [](const std::tuple<int, int> &t) { Tok k; k.cls = std::get<0>(t); k.idx = std::get<1>(t); return k; });
  Op v; v.kind = 'v'; Op t; t.kind = 't'; Op n; n.kind = 'n'; Op e; e.kind = 'e'; Op F; F.kind = 'F';
  return gen::weightedOneOf<Op>({{30, gen::map(small, mk('a'))}, {20, gen::map(small, mk('p'))}, {25, gen::map(small, mk('r'))},
                                 {8, gen::just(v)}, {5, gen::just(t)}, {5, gen::just(n)}, {5, gen::just(e)}, {1, gen::just(F)}});
}
rc::Gen<Case> genCase() {
  using namespace rc;
  return gen::oneOf(gen::map(gen::container<vector<Op>>(genHtOp()), [](vector<Op> ops) { Case c; c.which = 0; c.ops = std::move(ops); return c; }),
                    gen::map(gen::container<vector<Op>>(genListOp()), [](vector<Op> ops) { Case c; c.which = 1; c.ops = std::move(ops); return c; }));
}

int run_generated() {
  int failed = 0;
  bool ok = rc::check("hash table / list vs model", [&] {
    Case c = *genCase();
    string text = to_text(c);
    vl::set_current_case("rand", text);
    Outcome o = run_case(c);
    vl::stats().record(text, o.nontrivial, o.fp);
    if (!o.verdict.empty()) { vl::report_failure("rand", text, "C15:" + o.klass + ": " + o.verdict, o.klass); RC_FAIL(o.verdict); }
  });
  if (!ok) failed++;
  return failed;
}
string run_replay(const string &text) {
  Case c;
  if (!from_text(text, c)) return "unparsable case";
  Outcome o = run_case(c);
  return o.verdict.empty() ? "" : "C15:" + o.klass + ": " + o.verdict;
}
} // namespace

#ifdef VERIF_FUZZ
#include <fuzzer/FuzzedDataProvider.h>

extern "C" int LLVMFuzzerInitialize(int *, char ***) { p_libsys_init(); vl::fuzz_init(); return 0; }
extern "C" int LLVMFuzzerTestOneInput(const uint8_t *data, size_t size) {
  FuzzedDataProvider fdp(data, size);
  Case c; c.which = fdp.ConsumeIntegralInRange<int>(0, 1);
  while (fdp.remaining_bytes() > 0 && c.ops.size() < 500) {
    Op o;
    static const char hk[] = {'i', 'i', 'i', 'r', 'r', 'l', 'k', 'v', 'b', 'F'}; static const char lk[] = {'a', 'a', 'p', 'r', 'r', 'v', 't', 'n', 'e', 'F'};
    o.kind = (c.which ? lk : hk)[fdp.ConsumeIntegralInRange<int>(0, 9)];
    o.a.cls = fdp.ConsumeIntegralInRange<int>(0, 9); o.a.idx = fdp.ConsumeIntegralInRange<int>(0, 50);
    o.b.cls = fdp.ConsumeIntegralInRange<int>(0, 9); o.b.idx = fdp.ConsumeIntegralInRange<int>(0, 50); o.c = fdp.ConsumeIntegralInRange<int>(0, 2);
    c.ops.push_back(o);
  }
  std::string text = to_text(c);
  vl::set_current_case("fuzz", text);
  Outcome o = run_case(c);
  vl::stats().record(text, o.nontrivial, o.fp);
  if (!o.verdict.empty()) vl::fuzz_report("fuzz", text, "C15:" + o.klass + ": " + o.verdict, o.klass);
  return 0;
}
#else
int main(int argc, char **argv) {
  p_libsys_init();
  vl::cpu_guard(60); // non-termination oracle: user CPU time per case, see vlib.h
  return vl::harness_main(argc, argv, run_generated, run_replay);
}
#endif
