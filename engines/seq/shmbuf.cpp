// shmbuf.cpp - model-based harness for PShmBuffer, in-process layer (C08): several handles of one
// name inside one process, every operation compared with a bounded FIFO byte queue.
//
// Case format:
//   shmbuf <capacity>
//   o <rel>              open another handle: rel 0 equal size arg, 1 size arg 0, 2 smaller, 3 larger
//   x <h>                close follower handle h (h taken modulo the number of open followers)
//   w <h> <mode> <n>     write: mode 0 n bytes, 1 free-1, 2 free, 3 free+1, 4 capacity, 5 capacity+1, 6 zero length
//   r <h> <mode> <n>     read:  mode 0 n bytes, 1 used-1, 2 used, 3 used+1, 4 capacity+1, 6 zero length
//   c <h>   f <h>   u <h>   clear / free-space / used-space through handle h
#include <rapidcheck.h>
#include "../../vlib/vlib.h"
#include <deque>
#include <atomic>
#include <thread>
#include <chrono>
#include <sys/syscall.h>
extern "C" {
#include <plibsys.h>
}
using std::string;
using std::vector;

namespace {
struct Op { char kind; int h = 0, mode = 0, n = 0; };
struct Case { int cap = 8; vector<Op> ops; };
std::ostream &operator<<(std::ostream &os, const Op &o) { return os << o.kind << ' ' << o.h << ' ' << o.mode << ' ' << o.n; }
string to_text(const Case &c) {
  std::ostringstream os; os << "shmbuf " << c.cap << "\n";
  for (auto &o : c.ops) {
    os << o.kind;
    if (o.kind == 'o') os << ' ' << o.mode; else if (o.kind == 'w' || o.kind == 'r') os << ' ' << o.h << ' ' << o.mode << ' ' << o.n; else os << ' ' << o.h;
    os << "\n";
  }
  return os.str();
}
bool from_text(const string &t, Case &c) {
  auto lines = vl::split_lines(t);
  if (lines.empty()) return false;
  auto h = vl::split_ws(lines[0]);
  if (h.size() < 2 || h[0] != "shmbuf") return false;
  c.cap = atoi(h[1].c_str());
  for (size_t i = 1; i < lines.size(); i++) {
    auto w = vl::split_ws(lines[i]); if (w.empty()) continue;
    Op o; o.kind = w[0][0];
    if (o.kind == 'o') { if (w.size() > 1) o.mode = atoi(w[1].c_str()); }
    else { if (w.size() > 1) o.h = atoi(w[1].c_str()); if (w.size() > 2) o.mode = atoi(w[2].c_str()); if (w.size() > 3) o.n = atoi(w[3].c_str()); }
    c.ops.push_back(o);
  }
  return true;
}
void showValue(const Case &c, std::ostream &os) { os << to_text(c); }

struct Outcome { string verdict, klass; bool nontrivial = false; uint64_t fp = 0; };
int g_seq = 0;

std::atomic<long> g_progress{0};
Outcome run_case(const Case &c) {
  Outcome out;
  bool tainted_smaller = false; // a handle was opened with a smaller size argument than the creator's (known finding D8)
  auto fail = [&](const string &k, const string &m) { if (out.verdict.empty()) { out.verdict = (tainted_smaller ? "[a handle was opened with a smaller size argument than the creator's] " : "") + m; out.klass = tainted_smaller ? "open-with-smaller-size-arg" : k; } };
  char name[96]; snprintf(name, sizeof name, "vsb_%d_%lx_%d", (int)getpid(), ({ struct timespec ts_; clock_gettime(CLOCK_MONOTONIC, &ts_); (long)(ts_.tv_sec * 1000000000L + ts_.tv_nsec); }), g_seq++);
  size_t S = (size_t)c.cap;
  PShmBuffer *creator = p_shm_buffer_new(name, S, NULL);
  if (!creator) { fail("new", "p_shm_buffer_new failed"); return out; }
  p_shm_buffer_clear(creator);
  vector<PShmBuffer *> hs = {creator};
  std::deque<unsigned char> model;
  unsigned long produced = 0;
  bool wrapped = false, boundary = false, other_size = false;
  size_t wpos = 0; // model of the ring write position, for wrap classification only (modulus S+1)
  auto H = [&](int h) { return hs[(size_t)(((h % (int)hs.size()) + (int)hs.size()) % (int)hs.size())]; };
  auto spaces = [&](PShmBuffer *b, const char *when) {
    pssize u = p_shm_buffer_get_used_space(b, NULL), f = p_shm_buffer_get_free_space(b, NULL);
    if (u != (pssize)model.size()) fail("used-space", string(when) + ": used space " + std::to_string(u) + " != model " + std::to_string(model.size()));
    else if (f != (pssize)(S - model.size())) fail("free-space", string(when) + ": free space " + std::to_string(f) + " != capacity - used = " + std::to_string(S - model.size()));
  };
  for (auto &o : c.ops) {
    if (!out.verdict.empty()) break;
    g_progress++;
    switch (o.kind) {
    case 'o': {
      int rel = o.mode % 4;
      if (rel == 2 && vl::excluded("open-with-smaller-size-arg")) { vl::stats().count("excluded_open_with_smaller_size_arg"); break; }
      if (hs.size() >= 5) break;
      size_t arg = rel == 0 ? S : rel == 1 ? 0 : rel == 2 ? std::max<size_t>(1, S / 2) : S * 2 + 3;
      if (rel == 2 && arg < S) tainted_smaller = true;
      PShmBuffer *b = p_shm_buffer_new(name, arg, NULL);
      if (!b) { fail("open", "opening an existing buffer with size argument " + std::to_string(arg) + " failed (capacity " + std::to_string(S) + ")"); break; }
      hs.push_back(b);
      if (rel != 0) other_size = true;
      vl::stats().klass(rel == 0 ? "open_equal_size" : rel == 1 ? "open_size_0" : rel == 2 ? "open_smaller_size" : "open_larger_size");
      spaces(b, rel == 2 ? "after opening a handle with a smaller size argument" : rel == 3 ? "after opening a handle with a larger size argument" : "after opening another handle");
      break;
    }
    case 'x': if (hs.size() > 1) { size_t i = 1 + (size_t)(o.h % (int)(hs.size() - 1)); p_shm_buffer_free(hs[i]); hs.erase(hs.begin() + (long)i); } break;
    case 'w': {
      size_t fr = S - model.size();
      size_t len = o.mode == 1 ? (fr ? fr - 1 : 0) : o.mode == 2 ? fr : o.mode == 3 ? fr + 1 : o.mode == 4 ? S : o.mode == 5 ? S + 1 : o.mode == 6 ? 0 : (size_t)(o.n < 0 ? 0 : o.n);
      if (o.mode == 7) {
        // lengths at the top of psize (a negative error value passed on as a length): "a write of more than the free space appends nothing
        // and returns 0" for every length - also one for which used + len wraps around.  The data pointer is a small valid block: a
        // correct write never looks at it
        static const size_t tops[] = {(size_t)-1, (size_t)-2, (size_t)-3, ((size_t)1 << 63), ((size_t)1 << 63) + 5, (size_t)-1 - 4096, ((size_t)1 << 32) + 7};
        size_t hl = tops[(size_t)(o.n < 0 ? 0 : o.n) % 7]; unsigned char small[8] = {1, 2, 3, 4, 5, 6, 7, 8};
        pssize hr = p_shm_buffer_write(H(o.h), small, hl, NULL);
        if (hr != 0) fail("write-refuse", "write of " + std::to_string(hl) + " bytes (top of the size type) with " + std::to_string(fr) + " free returned " + std::to_string(hr) + " instead of 0");
        boundary = true; vl::stats().klass(model.empty() ? "write_huge_length_on_empty_buffer" : "write_huge_length_on_non_empty_buffer");
        if (out.verdict.empty()) spaces(H(o.h), "after a refused write of a huge length");
        break;
      }
      unsigned char *buf = (unsigned char *)malloc(len ? len : 1);
      for (size_t i = 0; i < len; i++) buf[i] = (unsigned char)(1 + (produced + i) % 251);
      pssize r = p_shm_buffer_write(H(o.h), buf, len, NULL);
      if (len == 0) { if (r != 0 && r != -1) fail("write-zero", "zero-length write returned " + std::to_string(r)); }
      else if (len <= fr) {
        if (r != (pssize)len) fail("write-fit", "write of " + std::to_string(len) + " bytes with " + std::to_string(fr) + " free returned " + std::to_string(r));
        else { for (size_t i = 0; i < len; i++) model.push_back(buf[i]); produced += len; if (wpos + len > S + 1) wrapped = true; wpos = (wpos + len) % (S + 1); if (len == fr) { boundary = true; vl::stats().klass("write_exactly_free"); } }
      } else {
        if (r != 0) fail("write-refuse", "write of " + std::to_string(len) + " bytes with only " + std::to_string(fr) + " free returned " + std::to_string(r) + " instead of 0");
        boundary = true; vl::stats().klass(len == fr + 1 ? "write_free_plus_1_refused" : "write_too_large_refused");
      }
      free(buf);
      if (out.verdict.empty()) spaces(H(o.h), "after write");
      break;
    }
    case 'r': {
      size_t us = model.size();
      size_t len = o.mode == 1 ? (us ? us - 1 : 0) : o.mode == 2 ? us : o.mode == 3 ? us + 1 : o.mode == 4 ? S + 1 : o.mode == 6 ? 0 : (size_t)(o.n < 0 ? 0 : o.n);
      unsigned char *buf = (unsigned char *)malloc(len ? len : 1);
      memset(buf, 0xEE, len ? len : 1);
      pint r = p_shm_buffer_read(H(o.h), buf, len, NULL);
      size_t want = std::min(len, us);
      // "a read removes and returns the oldest min(len, used) bytes": the caller's storage beyond that count is not the read's to write
      if (r >= 0 && (size_t)r <= len) for (size_t i = (size_t)r; i < len; i++) if (buf[i] != 0xEE) { fail("read-beyond-count", "read of " + std::to_string(len) + " with " + std::to_string(us) + " used returned " + std::to_string(r) + " but overwrote the caller's storage at offset " + std::to_string(i) + ", beyond the bytes it reported"); break; }
      if (len == 0) { if (r != 0 && r != -1) fail("read-zero", "zero-length read returned " + std::to_string(r)); }
      else if (r != (pint)want) fail("read-count", "read of " + std::to_string(len) + " with " + std::to_string(us) + " used returned " + std::to_string(r) + ", expected " + std::to_string(want));
      else {
        for (size_t i = 0; i < want; i++) if (buf[i] != model[i]) { fail("read-data", "read returned wrong bytes (FIFO order / wrap-around) at offset " + std::to_string(i)); break; }
        if (out.verdict.empty()) { model.erase(model.begin(), model.begin() + (long)want); }
        if (us == 0) { boundary = true; vl::stats().klass("read_at_empty"); }
        if (len > us && us > 0) { boundary = true; vl::stats().klass("read_more_than_used"); }
      }
      free(buf);
      if (out.verdict.empty()) spaces(H(o.h), "after read");
      break;
    }
    case 'c': p_shm_buffer_clear(H(o.h)); model.clear(); wpos = 0; spaces(H(o.h), "after clear"); vl::stats().klass("clear"); break;
    case 'f': case 'u': spaces(H(o.h), "query"); break;
    default: break;
    }
  }
  // drain through the last handle and compare everything that is left
  if (out.verdict.empty()) {
    for (PShmBuffer *b : hs) { spaces(b, "final query through every handle"); if (!out.verdict.empty()) break; }
  }
  if (out.verdict.empty() && !model.empty()) {
    vector<unsigned char> buf(model.size() + 4, 0xEE);
    pint r = p_shm_buffer_read(hs.back(), buf.data(), buf.size(), NULL);
    for (size_t i = model.size(); i < buf.size(); i++) if (buf[i] != 0xEE) { fail("read-beyond-count", "final drain of " + std::to_string(model.size()) + " bytes overwrote the caller's storage beyond the bytes it reported"); break; }
    if (r != (pint)model.size()) fail("read-count", "final drain returned " + std::to_string(r) + " bytes, model holds " + std::to_string(model.size()));
    else for (size_t i = 0; i < model.size(); i++) if (buf[i] != model[i]) { fail("read-data", "final drain returned wrong bytes"); break; }
  }
  for (size_t i = hs.size(); i-- > 1;) p_shm_buffer_free(hs[i]);
  p_shm_buffer_take_ownership(creator);
  p_shm_buffer_free(creator);
  out.nontrivial = wrapped && boundary;
  if (wrapped) vl::stats().klass("case_with_wrapped_write");
  if (other_size) vl::stats().klass("case_with_handle_of_other_size_arg");
  out.fp = vl::fnv1a(to_text(c));
  return out;
}

rc::Gen<int> rng(int lo, int hi) { return rc::gen::resize(100, rc::gen::inRange(lo, hi)); }
rc::Gen<Case> genCase() {
  using namespace rc;
  auto cap = gen::weightedOneOf<int>({{6, gen::element(1, 2, 3, 7, 8, 64, 1024, 4079, 8175)}, {2, rng(1, 5001)}});
  return gen::mapcat(cap, [](int S) {
    auto w = gen::map(gen::tuple(rng(0, 5), gen::weightedElement<int>({{5, 0}, {2, 1}, {3, 2}, {2, 3}, {1, 4}, {1, 5}, {1, 6}, {1, 7}}), gen::weightedOneOf<int>({{3, rng(1, 4)}, {3, rng(1, std::max(2, S / 2 + 2))}, {1, rng(1, S + 3)}})), [](const std::tuple<int, int, int> &t) { Op o; o.kind = 'w'; o.h = std::get<0>(t); o.mode = std::get<1>(t); o.n = std::get<2>(t); return o; });
    auto r = gen::map(gen::tuple(rng(0, 5), gen::weightedElement<int>({{5, 0}, {2, 1}, {2, 2}, {2, 3}, {1, 4}, {1, 6}}), gen::weightedOneOf<int>({{3, rng(1, 4)}, {3, rng(1, std::max(2, S / 2 + 2))}, {1, rng(1, S + 3)}})), [](const std::tuple<int, int, int> &t) { Op o; o.kind = 'r'; o.h = std::get<0>(t); o.mode = std::get<1>(t); o.n = std::get<2>(t); return o; });
    auto op = gen::map(rng(0, 4), [](int m) { Op o; o.kind = 'o'; o.mode = m; return o; });
    auto simple = [](char k) { return gen::map(rng(0, 5), [k](int h) { Op o; o.kind = k; o.h = h; return o; }); };
    auto anyop = gen::weightedOneOf<Op>({{40, w}, {36, r}, {5, op}, {3, simple('x')}, {2, simple('c')}, {3, simple('f')}, {3, simple('u')}});
    return gen::map(gen::container<vector<Op>>(anyop), [S](vector<Op> ops) { Case c; c.cap = S; c.ops = std::move(ops); return c; });
  });
}

int g_failed = 0;
// Watchdog for "an operation never returns" (e.g. a missing unlock on an early-return path): the case is single-threaded and
// uses a private name, so if the main thread sits in a futex wait (sem_wait) for 10 s nobody can ever release it.  CPU
// starvation cannot trigger this: a starved thread is runnable, not blocked in the futex system call.
pid_t g_main_tid = 0;
string g_cur_sub, g_cur_text;
string main_syscall() { char p[64]; snprintf(p, sizeof p, "/proc/self/task/%d/syscall", (int)g_main_tid); FILE *f = fopen(p, "r"); if (!f) return ""; char b[256] = ""; if (!fgets(b, sizeof b, f)) b[0] = 0; fclose(f); return b; }
void watchdog() {
  long last = -1; int stuck = 0;
  for (;;) {
    std::this_thread::sleep_for(std::chrono::seconds(1));
    long now = g_progress.load();
    if (now != last) { last = now; stuck = 0; continue; }
    if (++stuck < 10) continue;
    string a = main_syscall();
    std::this_thread::sleep_for(std::chrono::milliseconds(500));
    string b = main_syscall();
    if (a.rfind("202 ", 0) == 0 && a == b && g_progress.load() == now && !g_cur_text.empty()) {
      vl::report_failure(g_cur_sub + "_hang", g_cur_text, "C08:operation-does-not-return: an operation on the buffer never returned: the only thread of the process has been blocked in a futex wait (sem_wait of the buffer lock) for 10 s although no handle holds the lock - a lock was not released on some return path", "operation-does-not-return");
      vl::stats().flush();
      fprintf(stderr, "REPLAY-FAIL C08:operation-does-not-return: blocked forever in the buffer lock\n");
      printf("REPLAY-FAIL C08:operation-does-not-return: blocked forever in the buffer lock\n"); fflush(stdout);
      _exit(1);
    }
    stuck = 0;
  }
}
void exec(const string &sub, const Case &c, bool rc_mode) {
  string text = to_text(c);
  vl::set_current_case(sub.c_str(), text);
  g_cur_sub = sub; g_cur_text = text; g_progress++;
  Outcome o = run_case(c);
  g_progress++;
  vl::stats().record(text, o.nontrivial, o.fp);
  if (!o.verdict.empty()) { vl::report_failure(sub, text, "C08:" + o.klass + ": " + o.verdict, o.klass); if (rc_mode) RC_FAIL(o.verdict); g_failed++; }
}
// exhaustive: all op sequences of length <= L over capacity S in {1,2,3} with write/read lengths 1..S+1
void exhaustive(int maxlen, long shard, long nshards) {
  long idx = 0;
  for (int S = 1; S <= 3; S++) {
    vector<Op> alphabet;
    for (int n = 1; n <= S + 1; n++) { Op w; w.kind = 'w'; w.mode = 0; w.n = n; alphabet.push_back(w); Op r; r.kind = 'r'; r.mode = 0; r.n = n; alphabet.push_back(r); }
    Op c; c.kind = 'c'; alphabet.push_back(c);
    int A = (int)alphabet.size();
    for (int len = 1; len <= maxlen; len++) {
      long total = 1; for (int i = 0; i < len; i++) total *= A;
      for (long code = 0; code < total; code++) {
        if ((idx++ % nshards) != shard) continue;
        Case cs; cs.cap = S; long x = code;
        for (int i = 0; i < len; i++) { cs.ops.push_back(alphabet[(size_t)(x % A)]); x /= A; }
        exec("exh", cs, false);
        if (g_failed) return;
      }
    }
  }
  vl::stats().exhaustive["all_op_sequences_len<=" + std::to_string(maxlen) + "_capacity_1..3_lengths_1..S+1"] = true;
}
int run_generated() {
  string sub = vl::env("VERIF_SUB", "all");
  bool thorough = vl::env("VERIF_TIER", "quick") == "thorough";
  long shard = vl::envl("VERIF_SHARD", 0), nshards = vl::envl("VERIF_NSHARDS", 1);
  if (sub == "all" || sub == "exh") exhaustive(thorough ? 6 : 4, shard, nshards);
  if (g_failed) return g_failed;
  if (sub == "all" || sub == "rand") { bool ok = rc::check("shm buffer vs FIFO model", [&] { Case c = *genCase(); exec("rand", c, true); }); if (!ok) g_failed++; }
  return g_failed;
}
string run_replay(const string &text) { Case c; if (!from_text(text, c)) return "unparsable case"; g_cur_sub = "replay"; g_cur_text = text; g_progress++; Outcome o = run_case(c); g_progress++; return o.verdict.empty() ? "" : "C08:" + o.klass + ": " + o.verdict; }
} // namespace

int main(int argc, char **argv) {
  p_libsys_init();
  g_main_tid = (pid_t)syscall(SYS_gettid);
  std::thread(watchdog).detach();
  return vl::harness_main(argc, argv, run_generated, run_replay);
}
