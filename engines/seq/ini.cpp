// ini.cpp - robustness + grammar-differential harness for PIniFile (C16).
//
// Case format:
//   ini G|R
//   file <hex of file content | ->
//   exp <section hex> <key hex> <value hex|-> <s | i N | d REPR | b 0|1 | l tokhex,tokhex,...>   (G only; final expected content)
// G cases are rendered from a generated AST of the documented grammar; the expected content comes from the AST
// (never from parsing), so the oracle is independent of pinifile.c.
#include <rapidcheck.h>
#include "../../vlib/vlib.h"
#include "../../vlib/valloc.h"
#include <sys/mman.h>
#include <cmath>
#include <climits>
using std::string;
using std::vector;

namespace {

struct Exp { string sec, key, val; char type = 's'; long ival = 0; double dval = 0; bool bval = false; vector<string> list; };
struct Case { char mode = 'R'; string file; vector<Exp> exps; };

string hx(const string &s) { return s.empty() ? "-" : vl::hex(s); }
string uhx(const string &s) { return s == "-" ? "" : vl::unhex(s); }

string to_text(const Case &c) {
  std::ostringstream os;
  os << "ini " << c.mode << "\nfile " << hx(c.file) << "\n";
  for (auto &e : c.exps) {
    os << "exp " << hx(e.sec) << ' ' << hx(e.key) << ' ' << hx(e.val) << ' ' << e.type;
    char b[64];
    switch (e.type) {
    case 'i': os << ' ' << e.ival; break;
    case 'd': snprintf(b, sizeof b, "%.17g", e.dval); os << ' ' << b; break;
    case 'b': os << ' ' << (e.bval ? 1 : 0); break;
    case 'l': { os << ' '; for (size_t i = 0; i < e.list.size(); i++) os << (i ? "," : "") << hx(e.list[i]); if (e.list.empty()) os << "."; break; }
    default: break;
    }
    os << "\n";
  }
  // human-readable rendering as comments
  std::istringstream is(c.file);
  string l; int n = 0;
  while (std::getline(is, l) && n++ < 40) { os << "# | "; for (unsigned char ch : l.substr(0, 120)) os << (ch >= 32 && ch < 127 ? (char)ch : '?'); os << "\n"; }
  return os.str();
}
bool from_text(const string &t, Case &c) {
  for (auto &l : vl::split_lines(t)) {
    auto w = vl::split_ws(l);
    if (w.empty() || w[0][0] == '#') continue;
    if (w[0] == "ini" && w.size() > 1) c.mode = w[1][0];
    else if (w[0] == "file" && w.size() > 1) c.file = uhx(w[1]);
    else if (w[0] == "exp" && w.size() >= 5) {
      Exp e; e.sec = uhx(w[1]); e.key = uhx(w[2]); e.val = uhx(w[3]); e.type = w[4][0];
      if (e.type == 'i' && w.size() > 5) e.ival = atol(w[5].c_str());
      if (e.type == 'd' && w.size() > 5) e.dval = strtod(w[5].c_str(), 0);
      if (e.type == 'b' && w.size() > 5) e.bval = atoi(w[5].c_str()) != 0;
      if (e.type == 'l' && w.size() > 5 && w[5] != ".") { std::stringstream ss(w[5]); string tok; while (std::getline(ss, tok, ',')) e.list.push_back(uhx(tok)); }
      c.exps.push_back(e);
    }
  }
  return true;
}
void showValue(const Case &c, std::ostream &os) { os << to_text(c); }

struct Outcome { string verdict, klass; bool nontrivial = false; uint64_t fp = 0; };

string printable(const string &s) { string o; for (unsigned char ch : s) o += (ch >= 32 && ch < 127) ? (char)ch : '?'; return o.substr(0, 80); }

vector<string> take_strings(PList *l) {
  vector<string> v;
  for (PList *c = l; c; c = c->next) v.push_back(c->data ? string((const char *)c->data) : string("\x01NULL"));
  p_list_foreach(l, (PFunc)p_free, NULL);
  p_list_free(l);
  return v;
}

Outcome run_case(const Case &c) {
  Outcome out;
  auto fail = [&](const string &k, const string &m) { if (out.verdict.empty()) { out.verdict = m; out.klass = k; } };
  size_t base_live = va::live_count();
  int fd = memfd_create("vini", 0);
  if (fd < 0) { fail("harness", "memfd_create failed"); return out; }
  size_t off = 0;
  while (off < c.file.size()) { ssize_t w = write(fd, c.file.data() + off, c.file.size() - off); if (w <= 0) break; off += (size_t)w; }
  char path[64];
  snprintf(path, sizeof path, "/proc/self/fd/%d", fd);
  PIniFile *ini = p_ini_file_new(path);
  if (!ini) { close(fd); fail("new", "p_ini_file_new returned NULL"); return out; }
  if (p_ini_file_is_parsed(ini)) fail("state", "is_parsed TRUE before parse");
  PError *err = NULL;
  pboolean ok = p_ini_file_parse(ini, &err);
  if (!ok) { fail("parse", "p_ini_file_parse returned FALSE on a readable file"); if (err) p_error_free(err); }
  if (ok && !p_ini_file_is_parsed(ini)) fail("state", "is_parsed FALSE after successful parse");
  // ---- consistency invariants (both modes) ----
  std::map<string, std::set<string>> got; // section -> keys
  size_t nsec = 0;
  if (out.verdict.empty()) {
    vector<string> secs = take_strings(p_ini_file_sections(ini));
    nsec = secs.size();
    for (auto &s : secs) {
      vector<string> keys = take_strings(p_ini_file_keys(ini, s.c_str()));
      if (keys.empty()) { fail("consistency", "listed section '" + printable(s) + "' has no key"); break; }
      for (auto &k : keys) {
        if (!p_ini_file_is_key_exists(ini, s.c_str(), k.c_str())) { fail("consistency", "listed key '" + printable(k) + "' of section '" + printable(s) + "' does not exist"); break; }
        pchar *v = p_ini_file_parameter_string(ini, s.c_str(), k.c_str(), NULL);
        if (!v) { fail("consistency", "listed key '" + printable(k) + "' has no retrievable value"); break; }
        p_free(v);
        // every getter returns
        (void)p_ini_file_parameter_int(ini, s.c_str(), k.c_str(), 7);
        (void)p_ini_file_parameter_double(ini, s.c_str(), k.c_str(), 7.5);
        (void)p_ini_file_parameter_boolean(ini, s.c_str(), k.c_str(), TRUE);
        take_strings(p_ini_file_parameter_list(ini, s.c_str(), k.c_str()));
        got[s].insert(k);
      }
      if (!out.verdict.empty()) break;
    }
  }
  // defaults for a missing key / section are returned verbatim
  if (out.verdict.empty()) {
    // names that the parsed file provably does not contain (a coverage-guided input once defined a key with the fixed probe name)
    string ms_s = "\x02no-such-section", mk_s = "\x02no-such-key";
    while (got.count(ms_s)) ms_s += "x";
    for (bool again = true; again;) { again = false; for (auto &sk : got) if (sk.second.count(mk_s)) { mk_s += "x"; again = true; } }
    const char *ms = ms_s.c_str(), *mk = mk_s.c_str();
    if (p_ini_file_is_key_exists(ini, ms, mk)) fail("defaults", "missing key reported as existing");
    pchar *v = p_ini_file_parameter_string(ini, ms, mk, "dflt");
    if (!v || strcmp(v, "dflt")) fail("defaults", "string default not returned for a missing key");
    p_free(v);
    v = p_ini_file_parameter_string(ini, ms, mk, NULL);
    if (v) { fail("defaults", "NULL string default not returned for a missing key"); p_free(v); }
    if (p_ini_file_parameter_int(ini, ms, mk, -12345) != -12345) fail("defaults", "int default not returned");
    if (p_ini_file_parameter_double(ini, ms, mk, 2.5) != 2.5) fail("defaults", "double default not returned");
    if (p_ini_file_parameter_boolean(ini, ms, mk, TRUE) != TRUE || p_ini_file_parameter_boolean(ini, ms, mk, FALSE) != FALSE) fail("defaults", "boolean default not returned");
    if (p_ini_file_parameter_list(ini, ms, mk) != NULL) fail("defaults", "list of a missing key is not NULL");
    if (!got.empty()) {
      const string &s0 = got.begin()->first;
      if (p_ini_file_parameter_int(ini, s0.c_str(), mk, 99) != 99) fail("defaults", "int default not returned for missing key in existing section");
    }
  }
  // ---- grammar oracle ----
  if (c.mode == 'G' && out.verdict.empty()) {
    std::map<string, std::map<string, const Exp *>> want;
    for (auto &e : c.exps) want[e.sec][e.key] = &e;
    for (auto &sk : want) {
      if (!got.count(sk.first)) { fail("missing-section", "section '" + printable(sk.first) + "' with keys is not reported"); break; }
      for (auto &kv : sk.second) {
        const Exp &e = *kv.second;
        if (!got[sk.first].count(kv.first)) { fail("missing-key", "key '" + printable(kv.first) + "' of section '" + printable(sk.first) + "' is not reported"); break; }
        pchar *v = p_ini_file_parameter_string(ini, e.sec.c_str(), e.key.c_str(), NULL);
        string sv = v ? v : "\x01NULL";
        p_free(v);
        if (sv != e.val && sv.empty() && (e.val == "''" || e.val == "\"\"")) { fail("value-quoted-empty-quotes", "[" + printable(e.sec) + "] " + printable(e.key) + " = '', expected the two quote characters " + e.val + " (a quoted value consisting of an empty pair of the other quotes)"); break; }
        if (sv != e.val) { fail("value", "[" + printable(e.sec) + "] " + printable(e.key) + " = '" + printable(sv) + "', expected '" + printable(e.val) + "'"); break; }
        if (e.type == 'i') { pint r = p_ini_file_parameter_int(ini, e.sec.c_str(), e.key.c_str(), 0x5a5a5a); if (r != (pint)e.ival) { fail("int", "int getter " + std::to_string(r) + " expected " + std::to_string(e.ival)); break; } }
        if (e.type == 'd') {
          double r = p_ini_file_parameter_double(ini, e.sec.c_str(), e.key.c_str(), -1e99);
          double tol = std::fabs(e.dval) * 1e-11 + 1e-300;
          if (!(std::fabs(r - e.dval) <= tol)) { char b[128]; snprintf(b, sizeof b, "double getter %.17g expected %.17g (text '%s')", r, e.dval, printable(e.val).c_str()); fail("double", b); break; }
        }
        if (e.type == 'b') {
          pboolean r1 = p_ini_file_parameter_boolean(ini, e.sec.c_str(), e.key.c_str(), TRUE), r2 = p_ini_file_parameter_boolean(ini, e.sec.c_str(), e.key.c_str(), FALSE);
          if ((r1 == TRUE) != e.bval || (r2 == TRUE) != e.bval) { fail("boolean", "boolean getter wrong for text '" + printable(e.val) + "'"); break; }
        }
        if (e.type == 'l') {
          vector<string> r = take_strings(p_ini_file_parameter_list(ini, e.sec.c_str(), e.key.c_str()));
          if (r != e.list) { fail("list", "list getter returned " + std::to_string(r.size()) + " tokens, expected " + std::to_string(e.list.size()) + " for '" + printable(e.val) + "'"); break; }
        }
      }
      if (!out.verdict.empty()) break;
    }
    if (out.verdict.empty()) {
      for (auto &sk : got) {
        if (!want.count(sk.first)) { fail("extra-section", "section '" + printable(sk.first) + "' reported but the file has no such non-empty section"); break; }
        for (auto &k : sk.second) if (!want[sk.first].count(k)) { fail("extra-key", "key '" + printable(k) + "' reported in section '" + printable(sk.first) + "' but no key line defines it (comment / pre-section line?)"); break; }
        if (!out.verdict.empty()) break;
      }
    }
    if (out.verdict.empty() && nsec != want.size()) fail("section-count", "sections() lists " + std::to_string(nsec) + " entries, expected " + std::to_string(want.size()));
  }
  p_ini_file_free(ini);
  close(fd);
  if (out.verdict.empty() && va::live_count() != base_live) fail("leak", "after p_ini_file_free " + std::to_string(va::live_count() - base_live) + " library block(s) are still allocated");
  if (c.mode == 'R') { out.nontrivial = nsec >= 1; if (nsec) vl::stats().klass("robust_input_with_section"); else vl::stats().klass("robust_input_rejected_entirely"); }
  return out;
}

// ---- grammar generator ---------------------------------------------------------------------------
rc::Gen<int> rng(int lo, int hi) { return rc::gen::resize(100, rc::gen::inRange(lo, hi)); }
rc::Gen<string> strOf(const string &charset, int maxlen) {
  return rc::gen::map(rc::gen::tuple(rng(0, maxlen + 1), rc::gen::container<vector<int>>((size_t)maxlen, rng(0, (int)charset.size()))), [charset](const std::tuple<int, vector<int>> &t) {
    string s; int n = std::get<0>(t);
    for (int i = 0; i < n; i++) s += charset[(size_t)std::get<1>(t)[(size_t)i]];
    return s; });
}
// bytes >= 0x80 (text in UTF-8 or a single-byte code page) are ordinary characters of names, values and comments; the byte values that
// make up the BOMs are among them (a line that would START with a complete BOM gets a leading blank, see render)
const string HIGH = "\xC3\xA9\xFF\xFE\xEF\xBB\xBF\x80\xA0";
const string KEYCH = "abcdefghijklmnopqrstuvwxyzABCDEFGHIJKLMNOPQRSTUVWXYZ0123456789_.-" + HIGH;
const string PLAINCH = "abcdefghijklmnopqrstuvwxyzABCXYZ0123456789_.-+*/\\()[]{}<>!?,:=\"'@$%^&|~ \t" + HIGH;
const string DQCH = "abcdefghijklmnopqrstuvwxyzABC0123456789_.-;#'= \t()[]{},:!?" + HIGH;
const string SQCH = "abcdefghijklmnopqrstuvwxyzABC0123456789_.-;#\"= \t()[]{},:!?" + HIGH;
const string COMCH = "abcdefghijklmnopqrstuvwxyz0123456789 =\"'[]{};#.,:-_\t" + HIGH;

struct GLine {
  int kind = 0;      // 0 blank 1 comment 2 section 3 key
  int secid = 0;     // for section lines: unique id appended to the name
  int keyid = 0;     // small range -> repeated keys
  int style = 0;     // 0 plain 1 dquote 2 squote 3 empty-dq 4 empty-sq 5 int 6 double 7 bool 8 list
  string a, b, c;    // name fragment / value text / comment text
  int ws1 = 0, ws2 = 0, ws3 = 0, ws4 = 0;
  int num1 = 0, num2 = 0, num3 = 0;
  bool crlf = false, with_comment = false, pad_long = false;
};
std::ostream &operator<<(std::ostream &os, const GLine &l) { return os << "line kind=" << l.kind << " style=" << l.style << " a=" << l.a << " b=" << l.b << " c=" << l.c; }

string wsn(int n) { static const char *w[] = {"", " ", "  ", "\t", " \t ", "    "}; return w[n % 6]; }
string trim(const string &s) { size_t a = 0, b = s.size(); while (a < b && (s[a] == ' ' || s[a] == '\t')) a++; while (b > a && (s[b - 1] == ' ' || s[b - 1] == '\t')) b--; return s.substr(a, b - a); }

struct Rendered { Case c; bool multi_sec = false, repeated = false, quoted_marker = false, eq_in_comment = false; int longest = 0; };

bool starts_with_bom(const string &t) {
  auto u = [&](size_t i) { return i < t.size() ? (unsigned char)t[i] : 0x100u; };
  return (u(0) == 0xEF && u(1) == 0xBB && u(2) == 0xBF) || (u(0) == 0xFE && u(1) == 0xFF) || (u(0) == 0xFF && u(1) == 0xFE);
}
// bom: 0 none, 1 UTF-8, 2 UTF-16 BE, 3 UTF-16 LE, 4 UTF-32 BE (the byte sequences the parser documents to skip at the start of the file)
Rendered render(const vector<GLine> &lines, int bom, bool final_newline) {
  Rendered r;
  r.c.mode = 'G';
  string file;
  if (bom == 1) file += "\xEF\xBB\xBF"; else if (bom == 2) file += "\xFE\xFF"; else if (bom == 3) file += "\xFF\xFE"; else if (bom == 4) file += string("\0\0\xFE\xFF", 4);
  string cursec; bool insec = false;
  std::map<string, std::map<string, Exp>> want;
  vector<string> order;
  for (size_t li = 0; li < lines.size(); li++) {
    const GLine &l = lines[li];
    string text;
    switch (l.kind) {
    case 0: text = wsn(l.ws1); break;
    case 1: text = wsn(l.ws1) + (l.num1 & 1 ? ";" : "#") + l.c; if (l.c.find('=') != string::npos) r.eq_in_comment = true; break;
    case 2: {
      string name = trim(l.a);
      // section names: no ']' ; unique by construction
      string clean; for (char ch : name) if (ch != ']' && ch != '[') clean += ch;
      clean = trim(clean + "_s" + std::to_string(l.secid));
      text = wsn(l.ws1) + "[" + wsn(l.ws2) + clean + wsn(l.ws3) + "]" + wsn(l.ws4);
      cursec = clean; insec = true;
      break;
    }
    default: {
      string key = trim(l.a);
      string k2; for (char ch : key) if (KEYCH.find(ch) != string::npos || ch == ' ') k2 += ch;
      key = trim((l.num1 % 3 == 0 ? k2 : string()) + "k" + std::to_string(l.keyid));
      Exp e; e.key = key; e.sec = cursec;
      string vtext;
      switch (l.style) {
      case 1: { string in = trim(l.b); string f; for (char ch : in) if (ch != '"') f += ch; f = trim(f); if (f.empty()) f = "q;#"; if (f == "''" && vl::excluded("value-quoted-empty-quotes")) { f = "q'"; vl::stats().count("excluded_quoted_empty_quotes"); } vtext = "\"" + f + "\""; e.val = f; if (f.find(';') != string::npos || f.find('#') != string::npos) r.quoted_marker = true; break; }
      case 2: { string in = trim(l.b); string f; for (char ch : in) if (ch != '\'') f += ch; f = trim(f); if (f.empty()) f = "q#;"; if (f == "\"\"" && vl::excluded("value-quoted-empty-quotes")) { f = "q\""; vl::stats().count("excluded_quoted_empty_quotes"); } vtext = "'" + f + "'"; e.val = f; if (f.find(';') != string::npos || f.find('#') != string::npos) r.quoted_marker = true; break; }
      case 3: vtext = "\"\""; e.val = ""; break;
      case 4: vtext = "''"; e.val = ""; break;
      case 5: {
        long v = l.num1 % 4 == 0 ? (long)INT_MAX - (l.num2 % 3) : l.num1 % 4 == 1 ? (long)INT_MIN + (l.num2 % 3) : (long)(l.num2 % 200001) - 100000;
        char b[64];
        if (l.num3 % 4 == 1 && v >= 0) snprintf(b, sizeof b, "+%ld", v);
        else if (l.num3 % 4 == 2) snprintf(b, sizeof b, v < 0 ? "-%07ld" : "%07ld", v < 0 ? -v : v);
        else snprintf(b, sizeof b, "%ld", v);
        vtext = b; e.val = b; e.type = 'i'; e.ival = v; break;
      }
      case 6: {
        char b[96];
        long mant = (long)(l.num1 % 1000000) * 1000 + (l.num2 % 1000);
        int ex = l.num3 % 401 - 200;
        switch (l.num2 % 5) {
        case 0: snprintf(b, sizeof b, "%ld.%03d", mant / 1000, (int)(mant % 1000)); break;
        case 1: snprintf(b, sizeof b, "-%ld.%de%d", mant % 1000, l.num1 % 100000, ex); break;
        case 2: snprintf(b, sizeof b, "%ldE+%d", mant, std::abs(ex)); break;
        case 3: snprintf(b, sizeof b, "0.%06de-%d", l.num1 % 1000000, std::abs(ex) % 150); break;
        default: snprintf(b, sizeof b, "+%d.%d", l.num1 % 1000, l.num2 % 1000); break;
        }
        vtext = b; e.val = b; e.type = 'd'; e.dval = strtod(b, NULL); break;
      }
      case 7: { static const char *w[] = {"true", "false", "TRUE", "FALSE", "0", "1"}; vtext = w[l.num1 % 6]; e.val = vtext; e.type = 'b'; e.bval = (l.num1 % 6 == 0 || l.num1 % 6 == 2 || l.num1 % 6 == 5); break; }
      case 8: {
        int n = l.num1 % 5 + 1; string s = "{";
        for (int i = 0; i < n; i++) { string tok = "t" + std::to_string((l.num2 + i * 7) % 1000) + (i % 2 ? ".5" : ""); e.list.push_back(tok); s += (i ? (l.num3 % 2 ? "\t" : " ") : (l.num3 % 3 == 0 ? " " : "")) + tok; }
        s += (l.num3 % 5 == 0 ? " }" : "}");
        vtext = s; e.val = s; e.type = 'l'; break;
      }
      default: {
        string in = trim(l.b); string f;
        for (char ch : in) if (ch != ';' && ch != '#') f += ch;
        f = trim(f);
        while (!f.empty() && (f[0] == '"' || f[0] == '\'')) f = trim(f.substr(1));
        if (f.empty()) f = "v=1=2";
        if (f == "\"\"" || f == "''") f = "x";
        vtext = f; e.val = f; break;
      }
      }
      text = wsn(l.ws1) + key + wsn(l.ws2) + "=" + wsn(l.ws3) + vtext;
      if (l.with_comment) text += wsn(l.ws4 % 5 + 1) + (l.num3 & 1 ? ";" : "#") + l.c;
      else text += wsn(l.ws4);
      if (l.pad_long && l.style == 1 && text.size() < 1000 && !(bom && li == 0) && !starts_with_bom(text)) {
        // stretch the quoted value so that the line length hits the documented limit region
        size_t target = 1022 + (size_t)(l.num1 % 3);
        size_t add = target - text.size();
        string pad(add, 'p');
        size_t pos = text.find('"');
        text.insert(pos + 1, pad);
        e.val = pad + e.val;
      }
      if (insec) {
        if (want[cursec].count(key)) r.repeated = true;
        want[cursec][key] = e;
      } else if (text.find('=') != string::npos) r.eq_in_comment = true; // pre-section line with '='
      break;
    }
    }
    if (starts_with_bom(text)) text = " " + text;   // leading blanks are insignificant; a BOM is only meant at the start of the file
    r.longest = std::max(r.longest, (int)text.size());
    file += text;
    bool last = li + 1 == lines.size();
    if (!last || final_newline) file += l.crlf ? "\r\n" : "\n";
  }
  r.c.file = file;
  int nonempty = 0;
  for (auto &sk : want) { if (!sk.second.empty()) nonempty++; for (auto &kv : sk.second) r.c.exps.push_back(kv.second); }
  r.multi_sec = nonempty >= 2;
  return r;
}

rc::Gen<GLine> genLine() {
  using namespace rc;
  auto kind = gen::weightedElement<int>({{1, 0}, {3, 1}, {3, 2}, {12, 3}});
  auto style = gen::weightedElement<int>({{5, 0}, {4, 1}, {3, 2}, {1, 3}, {1, 4}, {2, 5}, {2, 6}, {2, 7}, {2, 8}});
  return gen::map(gen::tuple(kind, style, gen::tuple(strOf(KEYCH + "  ", 10), gen::oneOf(strOf(PLAINCH, 30), strOf(DQCH, 30), strOf(SQCH, 30)), strOf(COMCH, 25)),
                             gen::tuple(rng(0, 6), rng(0, 6), rng(0, 6), rng(0, 6)), gen::tuple(rng(0, 1000000), rng(0, 1000000), rng(0, 1000000)),
                             gen::tuple(rng(0, 4), rng(0, 5), rng(0, 3), rng(0, 40))),
                  [](const std::tuple<int, int, std::tuple<string, string, string>, std::tuple<int, int, int, int>, std::tuple<int, int, int>, std::tuple<int, int, int, int>> &t) {
    GLine l; l.kind = std::get<0>(t); l.style = std::get<1>(t);
    l.a = std::get<0>(std::get<2>(t)); l.b = std::get<1>(std::get<2>(t)); l.c = std::get<2>(std::get<2>(t));
    l.ws1 = std::get<0>(std::get<3>(t)); l.ws2 = std::get<1>(std::get<3>(t)); l.ws3 = std::get<2>(std::get<3>(t)); l.ws4 = std::get<3>(std::get<3>(t));
    l.num1 = std::get<0>(std::get<4>(t)); l.num2 = std::get<1>(std::get<4>(t)); l.num3 = std::get<2>(std::get<4>(t));
    l.keyid = std::get<0>(std::get<5>(t)); l.crlf = std::get<1>(std::get<5>(t)) == 0; l.with_comment = std::get<2>(std::get<5>(t)) == 0; l.pad_long = std::get<3>(std::get<5>(t)) == 0;
    return l; });
}

int g_failed = 0;
void exec(const string &sub, const Case &c, bool nontriv_hint, uint64_t fp, bool rc_mode) {
  string text = to_text(c);
  vl::set_current_case(sub.c_str(), text);
  Outcome o = run_case(c);
  bool nt = c.mode == 'G' ? nontriv_hint : o.nontrivial;
  vl::stats().record(text, nt, fp);
  if (!o.verdict.empty()) {
    vl::report_failure(sub, text, "C16:" + o.klass + ": " + o.verdict, o.klass);
    if (rc_mode) RC_FAIL(o.verdict);
    g_failed++;
  }
}

int run_generated() {
  string sub = vl::env("VERIF_SUB", "all");
  if (sub == "all" || sub == "grammar") {
    bool ok = rc::check("INI grammar files", [&] {
      vector<GLine> lines = *rc::gen::container<vector<GLine>>(genLine());
      int sid = 0;
      for (auto &l : lines) if (l.kind == 2) l.secid = sid++;
      int bomsel = *rng(0, 12); int bom = bomsel < 4 ? bomsel + 1 : 0; bool fnl = *rng(0, 5) != 0;
      if (vl::excluded("comment-with-equals")) {
        for (auto &l : lines) { string f; for (char ch : l.c) if (ch != '=') f += ch; if (f != l.c) { vl::stats().count("excluded_equals_removed_from_comment"); l.c = f; } }
      }
      Rendered r = render(lines, bom, fnl);
      bool nt = r.multi_sec && r.repeated && r.quoted_marker && r.eq_in_comment;
      if (r.multi_sec) vl::stats().klass("g_multi_section");
      if (r.repeated) vl::stats().klass("g_repeated_key");
      if (r.quoted_marker) vl::stats().klass("g_quoted_value_with_comment_marker");
      if (r.eq_in_comment) vl::stats().klass("g_equals_in_comment_or_presection_line");
      if (r.longest >= 1020) vl::stats().klass("g_line_at_length_limit");
      if (bom) vl::stats().klass(bom == 1 ? "g_bom_utf8" : bom == 2 ? "g_bom_utf16be" : bom == 3 ? "g_bom_utf16le" : "g_bom_utf32be");
      exec("grammar", r.c, nt, vl::fnv1a(r.c.file), true);
    });
    if (!ok) g_failed++;
  }
  if (sub == "all" || sub == "robust") {
    static const string frag[] = {"[", "]", "=", ";", "#", "\"", "'", "{", "}", "\n", "\r\n", " ", "\t", "\xEF\xBB\xBF", "\xFE\xFF", "\xFF\xFE", string("\0\0\xFE\xFF", 4), string("\xFF\xFE\0\0", 4), string("\0", 1),
                                  "[sec]\n", "[s2]\nx = y\n", "key = val\n", "[sec]", "key = val", "a=b", "\n", "\n", "k = \"v\"", "k = 'v'", "k = {1 2 3}", "[]", "[ ]", " = ", "==", "k =", "= v", "[a]]", "[[a]", "\x80\xff", "%s%n", "1e999", "-0", "true"};
    const int NF = sizeof frag / sizeof frag[0];
    bool ok = rc::check("INI arbitrary bytes", [&] {
      auto piece = rc::gen::weightedOneOf<string>({{8, rc::gen::map(rng(0, NF), [](int i) { return frag[i]; })},
                                                   {3, rc::gen::map(rc::gen::container<vector<int>>(rng(0, 256)), [](const vector<int> &v) { string s; for (int x : v) s += (char)x; return s.substr(0, 40); })},
                                                   {1, rc::gen::map(rc::gen::tuple(rc::gen::element<int>(1022, 1023, 1024, 1025, 1026, 2047, 2048, 2049, 5000), rc::gen::element<char>('a', '=', '[', ' ', '"', ';')), [](const std::tuple<int, char> &t) { return string((size_t)std::get<0>(t), std::get<1>(t)); })}});
      vector<string> pieces = *rc::gen::container<vector<string>>(piece);
      Case c; c.mode = 'R';
      for (auto &p : pieces) c.file += p;
      if (c.file.size() > 20000) c.file.resize(20000);
      exec("robust", c, false, vl::fnv1a(c.file), true);
    });
    if (!ok) g_failed++;
  }
  return g_failed;
}
string run_replay(const string &text) {
  Case c;
  if (!from_text(text, c)) return "unparsable case";
  Outcome o = run_case(c);
  return o.verdict.empty() ? "" : "C16:" + o.klass + ": " + o.verdict;
}
} // namespace

#ifdef VERIF_FUZZ
#include <fuzzer/FuzzedDataProvider.h>

extern "C" int LLVMFuzzerInitialize(int *, char ***) { p_libsys_init(); va::install(); vl::fuzz_init(); return 0; }
extern "C" int LLVMFuzzerTestOneInput(const uint8_t *data, size_t size) {
  Case c; c.mode = 'R'; c.file.assign((const char *)data, size);
  std::string text = to_text(c);
  vl::set_current_case("fuzz", text);
  Outcome o = run_case(c);
  vl::stats().record(text, o.nontrivial, vl::fnv1a(c.file));
  if (!o.verdict.empty()) vl::fuzz_report("fuzz", text, "C16:" + o.klass + ": " + o.verdict, o.klass);
  return 0;
}
#else
int main(int argc, char **argv) {
  p_libsys_init();
  va::install();
  vl::cpu_guard(60); // non-termination oracle: user CPU time per case, see vlib.h
  return vl::harness_main(argc, argv, run_generated, run_replay);
}
#endif
