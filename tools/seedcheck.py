#!/usr/bin/env python3
"""seedcheck.py <seed-dir> <property-id> [--name NAME] [--tier quick|thorough] [--no-ctest]
Confirms a seeded breaking change in a scratch worktree and records it under /verif/seeded/<name>/:
  1. worktree of /repo HEAD + patch applied, built with the repository's own cmake build
  2. the demonstration fails with the change and passes against /repo/_build (unchanged HEAD)
  3. the repository's test-suite passes with the change (IPC tests under the shared flock)
  4. ./check <ID> (VERIF_REPO=<worktree>) is run and the outcome (caught / missed) recorded
The worktree and all build output are removed afterwards."""
import sys, os, subprocess, json, shutil, time, argparse, glob, re

ap = argparse.ArgumentParser()
ap.add_argument('seed'); ap.add_argument('pid'); ap.add_argument('--name'); ap.add_argument('--tier', default='quick'); ap.add_argument('--no-ctest', action='store_true')
ap.add_argument('--cmake-args', default='', help='extra cmake arguments for the demo builds (e.g. -DPLIBSYS_RWLOCK_MODEL=general); a baseline build of /repo with the same arguments is made for the without-change run')
ap.add_argument('--only-check', action='store_true', help='skip demo/ctest confirmation (already recorded), just run the check')
a = ap.parse_args()
name = a.name or a.pid + '-' + os.path.basename(a.seed.rstrip('/'))
out = '/verif/seeded/' + name
os.makedirs(out, exist_ok=True)
wt = '/tmp/sc_' + name
meta_path = os.path.join(out, 'meta.json')
meta = json.load(open(meta_path)) if os.path.exists(meta_path) else {}

def sh(cmd, **kw):
    r = subprocess.run(cmd, shell=True, stdout=subprocess.PIPE, stderr=subprocess.STDOUT, text=True, **kw)
    return r.returncode, r.stdout

subprocess.run('git -C /repo worktree remove --force %s 2>/dev/null; rm -rf %s' % (wt, wt), shell=True)
rc, o = sh('git -C /repo worktree add --detach %s HEAD' % wt)
assert rc == 0, o
try:
    patch = os.path.join(a.seed, 'patch.diff') if os.path.isdir(a.seed) else a.seed
    rc, o = sh('git -C %s apply %s' % (wt, patch))
    if rc != 0:
        print('PATCH DOES NOT APPLY', o); sys.exit(2)
    if not a.only_check:
        for f in glob.glob(os.path.join(a.seed, '*')):
            if os.path.isfile(f) and not f.endswith('.log'):
                shutil.copy(f, out)
        meta.update(property=a.pid, repo_head=subprocess.check_output('git -C /repo rev-parse --short HEAD', shell=True, text=True).strip())
        rc, o = sh('cmake -G Ninja -S %s -B %s/_b -DCMAKE_BUILD_TYPE=RelWithDebInfo %s >/dev/null && cmake --build %s/_b 2>&1 | tail -3' % (wt, wt, a.cmake_args, wt))
        base_build, base_src = '/repo/_build', '/repo'
        if a.cmake_args:
            base_build = wt + '_base_b'
            sh('cmake -G Ninja -S /repo -B %s -DCMAKE_BUILD_TYPE=RelWithDebInfo %s >/dev/null && cmake --build %s 2>&1 | tail -3' % (base_build, a.cmake_args, base_build))
            meta['cmake_args'] = a.cmake_args
        meta['builds'] = rc == 0
        runner = os.path.join(out, 'build_and_run.sh')
        if os.path.exists(runner):
            rc1, o1 = sh('bash %s %s/_b %s' % (runner, wt, wt), cwd=out)
            rc2, o2 = sh('bash %s %s %s' % (runner, base_build, base_src), cwd=out)
            if a.cmake_args: shutil.rmtree(base_build, ignore_errors=True)
            meta['demo_with_change_exit'] = rc1; meta['demo_without_change_exit'] = rc2
            meta['demo_with_change_tail'] = o1[-300:]; meta['demo_without_change_tail'] = o2[-200:]
        if not a.no_ctest:
            t0 = time.time()
            rc1, o1 = sh('ctest --test-dir %s/_b -j8 --timeout 900 -E "psemaphore|pshm" 2>&1 | tail -4' % wt)
            rc2, o2 = sh('flock /tmp/plibsys_ipc_tests.lock ctest --test-dir %s/_b --timeout 900 -R "psemaphore|pshm" 2>&1 | tail -4' % wt)
            meta['testsuite_passes_with_change'] = (rc1 == 0 and rc2 == 0)
            meta['testsuite_tail'] = (o1 + o2)[-400:]
            meta['testsuite_wall_s'] = round(time.time() - t0)
        shutil.rmtree(wt + '/_b', ignore_errors=True)
    # run the check against the changed tree
    env = dict(os.environ, VERIF_REPO=wt)
    t0 = time.time()
    r = subprocess.run(['./check', a.pid, '--tier', a.tier], cwd='/verif', env=env, stdout=subprocess.PIPE, stderr=subprocess.STDOUT, text=True)
    viol = [l for l in r.stdout.splitlines() if l.startswith('VIOLATION')]
    verd = [l.strip() for l in r.stdout.splitlines() if l.strip().startswith('verdict=')]
    res = dict(tier=a.tier, exit=r.returncode, caught=(r.returncode == 1 and bool(viol)), wall_s=round(time.time() - t0, 1),
               first_verdict=(verd[0][:300] if verd else ''), summary=r.stdout.strip().splitlines()[-1] if r.stdout.strip() else '')
    # keep the shrunk replay of the first violation as evidence of what catches it
    if viol:
        m = re.search(r'replay=(\S+)', viol[0])
        if m and os.path.exists(m.group(1)):
            shutil.copy(m.group(1), os.path.join(out, 'caught-by-%s.case' % a.pid))
    meta.setdefault('checks', {})[a.pid + ':' + a.tier] = res
    print(name, a.pid, a.tier, 'CAUGHT' if res['caught'] else 'MISSED', res['first_verdict'][:160])
finally:
    json.dump(meta, open(meta_path, 'w'), indent=1)
    subprocess.run('git -C /repo worktree remove --force %s 2>/dev/null; rm -rf %s' % (wt, wt), shell=True)
    # scratch build roots of VERIF_REPO
    import hashlib
    shutil.rmtree('/tmp/verif-build-' + hashlib.sha1(wt.encode()).hexdigest()[:10], ignore_errors=True)
