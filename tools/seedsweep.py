#!/usr/bin/env python3
"""seedsweep.py [--jobs J] [--only name,name] : regression sweep over every recorded seeded change.
For each /verif/seeded/<name>/ (patch.diff + meta.json) a scratch worktree of /repo HEAD gets the patch, and the check(s) that
caught the change when it was recorded are run against it (quick tier, VERIF_REPO=<worktree>).  The outcome of the sweep is written to
/verif/seeded/SWEEP.json: a change that a later edit of the machinery no longer catches shows up here.
Worktrees and their build output are removed again; /repo itself is never touched."""
import os, sys, json, glob, subprocess, hashlib, shutil, argparse, time, concurrent.futures as cf
ap = argparse.ArgumentParser(); ap.add_argument('--jobs', type=int, default=3); ap.add_argument('--only')
a = ap.parse_args()
seeds = sorted(glob.glob('/verif/seeded/*/meta.json'))
if a.only: seeds = [s for s in seeds if s.split('/')[-2] in a.only.split(',')]
head = subprocess.run(['git', '-C', '/repo', 'rev-parse', '--short', 'HEAD'], stdout=subprocess.PIPE, text=True).stdout.strip()
def run(meta_path):
    name = meta_path.split('/')[-2]; d = os.path.dirname(meta_path)
    m = json.load(open(meta_path))
    props = [k.split(':')[0] for k, v in m.get('checks', {}).items() if v.get('caught')] or [m['property']]
    wt = '/tmp/sweep_' + name
    subprocess.run('git -C /repo worktree remove --force %s 2>/dev/null; rm -rf %s' % (wt, wt), shell=True)
    subprocess.run(['git', '-C', '/repo', 'worktree', 'add', '--detach', wt, 'HEAD'], stdout=subprocess.DEVNULL, stderr=subprocess.DEVNULL)
    r = dict(name=name, props=props, repo_head=head)
    try:
        ap_ = subprocess.run(['git', '-C', wt, 'apply', os.path.join(d, 'patch.diff')], stdout=subprocess.PIPE, stderr=subprocess.STDOUT, text=True)
        if ap_.returncode != 0:
            r.update(applies=False, note=ap_.stdout[-200:]); return r
        r['applies'] = True; r['caught_by'] = None; t0 = time.time()
        for p in props:
            c = subprocess.run(['./check', p, '--tier', 'quick'], cwd='/verif', env=dict(os.environ, VERIF_REPO=wt), stdout=subprocess.PIPE, stderr=subprocess.STDOUT, text=True)
            if c.returncode == 1 and 'VIOLATION' in c.stdout:
                v = [l.strip() for l in c.stdout.splitlines() if l.strip().startswith('verdict=')]
                r['caught_by'] = p; r['verdict'] = v[0][:200] if v else ''; break
            r['last_output'] = c.stdout[-300:]
        r['wall_s'] = round(time.time() - t0, 1)
        return r
    finally:
        subprocess.run('git -C /repo worktree remove --force %s 2>/dev/null; rm -rf %s' % (wt, wt), shell=True)
        shutil.rmtree('/tmp/verif-build-' + hashlib.sha1(wt.encode()).hexdigest()[:10], ignore_errors=True)
with cf.ThreadPoolExecutor(max_workers=a.jobs) as ex:
    res = []
    for r in ex.map(run, seeds):
        res.append(r)
        print('%-8s %-10s %s' % (r['name'], 'NO-APPLY' if not r.get('applies') else ('CAUGHT ' + r['caught_by'] if r.get('caught_by') else 'MISSED'), r.get('verdict', r.get('note', ''))[:120]), flush=True)
out = '/verif/seeded/SWEEP.json'
old = json.load(open(out)) if os.path.exists(out) and a.only else {}
for r in res: old[r['name']] = r
json.dump(old, open(out, 'w'), indent=1, sort_keys=True)
n = len(res); c = sum(1 for r in res if r.get('caught_by')); na = sum(1 for r in res if not r.get('applies'))
print('swept %d seeded changes: %d caught, %d missed, %d no longer apply' % (n, c, n - c - na, na))
