#!/usr/bin/env python3
"""mutate.py [--ids a,b] [--prop Cxx] [--tier quick|thorough] : sensitivity self-test.
Applies each listed mutant (tools/mutants.json: file, old text, new text) to a scratch git worktree of
/repo HEAD, runs ./check <prop> with VERIF_REPO=<worktree>, records caught/missed in /verif/selftest.json
and removes the worktree and its build output."""
import json, os, subprocess, sys, argparse, hashlib, shutil, time, concurrent.futures as cf
ap = argparse.ArgumentParser(); ap.add_argument('--ids'); ap.add_argument('--prop'); ap.add_argument('--tier', default='quick'); ap.add_argument('--jobs', type=int, default=3)
a = ap.parse_args()
muts = json.load(open('/verif/tools/mutants.json'))
if a.ids: muts = [m for m in muts if m['id'] in a.ids.split(',')]
if a.prop: muts = [m for m in muts if m['prop'] == a.prop]
def run(m):
    wt = '/tmp/mut_' + m['id']
    subprocess.run('git -C /repo worktree remove --force %s 2>/dev/null; rm -rf %s' % (wt, wt), shell=True)
    subprocess.run(['git', '-C', '/repo', 'worktree', 'add', '--detach', wt, 'HEAD'], stdout=subprocess.DEVNULL, stderr=subprocess.DEVNULL)
    try:
        p = os.path.join(wt, m['file']); s = open(p).read()
        if s.count(m['old']) < 1: return dict(id=m['id'], prop=m['prop'], error='old text not found')
        open(p, 'w').write(s.replace(m['old'], m['new'], 1))
        for ex in m.get('extra', []):
            p2 = os.path.join(wt, ex['file']); s2 = open(p2).read()
            if s2.count(ex['old']) < 1: return dict(id=m['id'], prop=m['prop'], error='extra old text not found')
            open(p2, 'w').write(s2.replace(ex['old'], ex['new'], 1))
        t0 = time.time()
        r = subprocess.run(['./check', m['prop'], '--tier', a.tier], cwd='/verif', env=dict(os.environ, VERIF_REPO=wt), stdout=subprocess.PIPE, stderr=subprocess.STDOUT, text=True)
        verd = [l.strip() for l in r.stdout.splitlines() if l.strip().startswith('verdict=')]
        return dict(id=m['id'], prop=m['prop'], tier=a.tier, caught=(r.returncode == 1 and 'VIOLATION' in r.stdout), exit=r.returncode, wall_s=round(time.time() - t0, 1), verdict=(verd[0][:240] if verd else r.stdout[-300:]))
    finally:
        subprocess.run('git -C /repo worktree remove --force %s 2>/dev/null; rm -rf %s' % (wt, wt), shell=True)
        shutil.rmtree('/tmp/verif-build-' + hashlib.sha1(wt.encode()).hexdigest()[:10], ignore_errors=True)
with cf.ThreadPoolExecutor(max_workers=a.jobs) as ex: res = list(ex.map(run, muts))
path = '/verif/selftest.json'
old = json.load(open(path)) if os.path.exists(path) else {}
for r in res:
    old[r['id'] + ':' + a.tier] = r
    print('%-40s %-4s %s %s' % (r['id'], r['prop'], 'CAUGHT' if r.get('caught') else ('ERROR ' + r.get('error', '') if 'error' in r else 'MISSED'), r.get('verdict', '')[:150]))
json.dump(old, open(path, 'w'), indent=1, sort_keys=True)
