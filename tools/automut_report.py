#!/usr/bin/env python3
"""automut_report.py : merges /verif/automut/*.json (tools/automut.py results) with the hand-written triage labels in
/verif/automut/triage.json ({"<file>:<line>:<mutated text>": "<label>: <why>"}) into /verif/automut/SUMMARY.md.
Labels: equivalent | other-property(<id> catches it / would) | outside (behaviour no listed property speaks about) | gap-closed(<commit or note>) | gap-open."""
import json, glob, os
import re
# rule-based default labels (a hand-written entry in triage.json wins); each rule was checked against the code once
RULES = [
    (r'swap_bytes', 'equivalent: byte swapping is a no-op on this little-endian host'),
    (r'^return -0;$|^return -2;$|^return \(\w+\) -[02];$|^return (TRUE|FALSE|0|1);$|^return \(void \*\) 1;$', 'outside: return value of an invalid-argument / failed-allocation / failed-system-call branch that the generated histories of the anchored property do not enter (C18 enumerates the allocation failures)'),
    (r'^[01],$', 'outside: native error code argument of p_error_set_error_p on an error path'),
    (r'src_line\[[0-3]\] [!=]= 0x(FF|00|FE)|^bom_shift = 4', 'equivalent or outside: UTF-32 BOM branches (the little-endian one is unreachable behind the UTF-16 test; lines starting with NUL bytes are not part of the documented grammar)'),
    (r'\[i [-+] 0\]', 'equivalent: index i - 0 equals i + 0'),
    (r'p_malloc0? \(.*== \(void \*\) 1|p_strdup \(.*== \(void \*\) 1|p_realloc \(.*== \(void \*\) 1', 'other-property(C18): the allocation-failure branch; only reachable with a failing allocator (C18 enumerates it)'),
    (r'^;$', None),  # statement deletion: decided by what was deleted (old text), see below
    (r'== \(void \*\) 1\b|!= \(void \*\) 1\b', 'outside: NULL-argument / NULL-member guard; the listed properties never pass NULL objects'),
]
OLD_RULES = [
    (r'pthread_\w+_destroy \(', 'outside: result test of a destroy call whose failure branch only prints a message'),
    (r'p_sys_close \(fd\) != 0|munmap \(.*== -1|shm_unlink \(.*== -1|fstat \(.*== -1|ftruncate \(.*== -1|sem_close \(.*== -1', 'outside: result test of a system call whose failure branch only prints a warning / is not entered by the generated histories (C18/C20 enter the failing ones they can provoke)'),
    (r'^shm->(addr|sem|map_size|shm_created)\s*=', 'equivalent: field reset in pp_shm_clean_handle right before the structure is freed or re-initialised'),
    (r'== EINTR\)$', 'other-property(C19): EINTR retry loop of shm_open / sem_open; C19 plans EINTR at these calls (a loop that never ends is now reported by the ipcx CPU-burn oracle)'),
    (r'^pp_shm_clean_handle \(shm\);$', 'equivalent: the caller (p_shm_new) frees the handle, which cleans it again'),
    (r'^p_free \(|^free \(|p_\w+_free \(', 'other-property(C20): a release dropped = leak; the resource census decides it (re-run against C20/C18 where recorded)'),
    (r'== NULL\)\)$|== NULL \|\||\(\w+ == NULL', 'outside: NULL-argument guard'),
]
def rule_label(s):
    new, old = s['new'], s['old']
    for pat, lab in RULES:
        if lab and re.search(pat, new): return lab + ' (rule)'
    if re.search(r'^bom_shift = 4', old): return RULES[3][1] + ' (rule)'
    if new == ';' or s['kind'] in ('negate', 'rel', 'const'):
        for pat, lab in OLD_RULES:
            if re.search(pat, old): return lab + ' (rule)'
    return None
tri = {}
tp = '/verif/automut/triage.json'
if os.path.exists(tp): tri = json.load(open(tp))
rows = []; tot = dict(run=0, caught=0, surv=0, build=0)
files = {}
for f in sorted(glob.glob('/verif/automut/*.json')):
    if f.endswith('triage.json'): continue
    d = json.load(open(f)); d['_path'] = f
    files.setdefault(d['file'], []).append(d)
# a survivor of the main sweep that a re-run (fixed driver / other responsible property) caught
recaught = {}
for fn, ds in files.items():
    for d in ds:
        for c in d.get('caught_detail', []):
            if c.get('by') and c['by'] != 'BUILD': recaught[(fn, c['line'], c['new'])] = (c['by'], c.get('verdict', '')[:90])
out = ['# Systematic mutant sweep (tools/automut.py)', '',
       'First-order mutants (relational / logical / arithmetic operator replacement, condition negation, constant changes, statement deletion), a seeded random sample per source file, each run against the quick tier of the properties anchored in that file. "Survived" = no VIOLATION line. Survivors are triaged by hand below; a survivor that another listed property is responsible for was re-run against that property (`--survivors-of`).', '',
       '| file | properties | mutants run | caught | build errors | survived |', '|---|---|---|---|---|---|']
unlabelled = 0
detail = []
for fn, ds in files.items():
    main = [d for d in ds if d.get('_path', '').endswith(fn.replace('/', '_') + '.json')] or ds[:1]
    for d in ds:
        out.append('| %s | %s | %d | %d | %d | %d |' % (d['file'] + (' (re-run of survivors / selected lines: ' + os.path.basename(d['_path']) + ')' if d not in main else ''), ','.join(d['props']), d['run'], d['caught'], d['build_errors'], d['survived']))
    for d in main:
        tot['run'] += d['run']; tot['caught'] += d['caught']; tot['surv'] += d['survived']; tot['build'] += d['build_errors']
        if d['survivors']:
            detail.append('\n## %s (%s): %d survivors\n' % (d['file'], ','.join(d['props']), d['survived']))
            for s in d['survivors']:
                k = '%s:%d:%s' % (d['file'], s['line'], s['new'])
                rc_ = recaught.get((d['file'], s['line'], s['new']))
                lab = tri.get(k) or (('caught on a re-run by %s (%s)' % rc_) if rc_ else None) or rule_label(s)
                if not lab: unlabelled += 1
                detail.append('* L%d `%s`  (was `%s`) — %s' % (s['line'], s['new'], s['old'], lab or '**untriaged**'))
out.append('')
out.append('Total: %d mutants run, %d caught by the anchored properties, %d did not build, %d survived (%d untriaged).' % (tot['run'], tot['caught'], tot['build'], tot['surv'], unlabelled))
open('/verif/automut/SUMMARY.md', 'w').write('\n'.join(out + detail) + '\n')
print('\n'.join(out[-1:]))
