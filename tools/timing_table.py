#!/usr/bin/env python3
"""timing_table.py [thorough-log] : prints the DESIGN section 7 table from the committed evidence files (quick tier: evaluations,
distinct non-trivial, wall time of the last run in /verif) and, if given, from a log of thorough runs ("Cxx thorough: ... , 123.4s")."""
import json, sys, re, glob
sys.path.insert(0, '/verif')
from vdriver import props as P
th = {}
if len(sys.argv) > 1:
    for l in open(sys.argv[1], errors='replace'):
        m = re.match(r'(C\d\d) thorough: (\d+) evaluations, (\d+) distinct non-trivial, (\d+) violation.*?([\d.]+)s', l)
        if m: th[m.group(1)] = (int(m.group(2)), int(m.group(3)), int(m.group(4)), float(m.group(5)))
print('| property | engines (sub-checks) | level claimed | quick: evaluations / distinct non-trivial / wall | thorough: evaluations / wall |')
print('|---|---|---|---|---|')
for pid in sorted(P.PROPS):
    pr = P.PROPS[pid]
    e = json.load(open('/verif/evidence/%s.json' % pid))
    c = e['coverage']
    engines = sorted({s.harness.split('_')[0] if s.harness.startswith(('rt_', 'dsched_')) else s.harness for s in pr.subs})
    q = '%s / %s / %.0f s' % (f"{c['evaluations']:,}".replace(',', ' '), f"{c['distinct_nontrivial']:,}".replace(',', ' '), e['wall_s'])
    t = th.get(pid)
    ts = ('%s / %.0f s' % (f"{t[0]:,}".replace(',', ' '), t[3])) if t else 'n/a'
    print('| %s | %s (%d) | %s | %s | %s |' % (pid, ', '.join(engines), len(pr.subs), pr.level, q, ts))
