#!/usr/bin/env python3
"""automut.py <src-file> <Cxx[,Cyy...]> [--max N] [--seed S] [--jobs J] [--lines a-b] [--tier quick]

Systematic sensitivity sweep: generates first-order mutants of one source file of /repo with a small set of
operators (relational / logical / arithmetic operator replacement, condition negation, constant +-1,
statement deletion), applies each to a scratch worktree (one worktree per job slot, so only the mutated file is
recompiled), runs the registered checks of the given properties against it (VERIF_REPO=<worktree>) and records
which mutants no check noticed.  Survivors are candidates for blind spots and are triaged by hand (equivalent,
outside the property, or a gap to close); the result goes to /verif/automut/<file>.json.
Nothing is ever written to /repo; the worktrees and their build output are removed at the end."""
import sys, os, re, json, subprocess, argparse, hashlib, shutil, random, time, queue, threading

ap = argparse.ArgumentParser()
ap.add_argument('file'); ap.add_argument('props'); ap.add_argument('--max', type=int, default=60); ap.add_argument('--seed', type=int, default=1)
ap.add_argument('--jobs', type=int, default=4); ap.add_argument('--lines'); ap.add_argument('--tier', default='quick'); ap.add_argument('--tag', default=''); ap.add_argument('--survivors-of', help='re-run only the survivors recorded in this earlier result file (against the properties given now)')
a = ap.parse_args()
props = a.props.split(',')
src = open(os.path.join('/repo', a.file)).read().split('\n')
lo, hi = 1, len(src)
if a.lines: lo, hi = [int(x) for x in a.lines.split('-')]

REL = [(r'(?<![<>=!\-+*/&|^])<=(?!=)', '<'), (r'(?<![<>=!\-])<(?![<=])', '<='), (r'(?<![<>=!\-])>=(?!=)', '>'), (r'(?<![<>=!\-])>(?![>=])', '>='),
       (r'==', '!='), (r'!=', '=='), (r'&&', '||'), (r'\|\|', '&&')]
ARI = [(r'(?<![+\-\w)\]] )\+ 1\b', '- 1'), (r' \+ (?!=)', ' - '), (r' - (?!=|>)', ' + '), (r'\+\+', '--'), (r'(?<!-)--(?!-)', '++'), (r' \+= ', ' -= '), (r' -= ', ' += '),
       (r'<<', '>>'), (r'>>', '<<'), (r' & (?!&)', ' | '), (r' \| (?!\|)', ' & ')]
CONST = [(r'\b0\b', '1'), (r'\b1\b', '0'), (r'\b1\b', '2'), (r'\bTRUE\b', 'FALSE'), (r'\bFALSE\b', 'TRUE'), (r'\bNULL\b', '(void *) 1')]

def in_code(line):
    s = line.strip()
    return s and not s.startswith(('*', '/*', '//', '#', '}')) and not s.startswith('P_LIB_API') and not s.endswith(',') or False

def active_lines(relfile):
    """Lines of the file that survive preprocessing in the reference build (lines inside inactive #if blocks can only yield
    equivalent mutants).  None if it cannot be determined."""
    try:
        cc = json.load(open('/verif/build/ref/compile_commands.json'))
        ent = [x for x in cc if x['file'].endswith('/' + relfile)][0]
        cmd = re.sub(r' -o \S+', '', ent['command']).replace(' -c ', ' -E ')
        out = subprocess.run(cmd, shell=True, cwd=ent['directory'], stdout=subprocess.PIPE, stderr=subprocess.DEVNULL, text=True).stdout
        act = set(); cur = None; infile = False
        for l in out.split('\n'):
            m = re.match(r'^# (\d+) "([^"]*)"', l)
            if m:
                infile = m.group(2).endswith('/' + relfile); cur = int(m.group(1)); continue
            if infile and cur is not None:
                if l.strip(): act.add(cur)
                cur += 1
        return act or None
    except Exception:
        return None
ACTIVE = active_lines(a.file)
muts = []
in_comment = False
for ln in range(lo, hi + 1):
    line = src[ln - 1]
    st = line.strip()
    if '/*' in st and '*/' not in st: in_comment = True; continue
    if in_comment:
        if '*/' in st: in_comment = False
        continue
    if not st or st.startswith(('*', '/*', '//', '#')): continue
    if 'P_ERROR' in st or 'P_WARNING' in st or 'P_DEBUG' in st: continue
    if ACTIVE is not None and ln not in ACTIVE: continue
    code = line
    for ops, kind in ((REL, 'rel'), (ARI, 'ari'), (CONST, 'const')):
        if kind == 'const' and not re.search(r'(return|=|\(|,)', code): continue
        for pat, rep in ops:
            for m in re.finditer(pat, code):
                # not inside a string literal
                if code[:m.start()].count('"') % 2: continue
                new = code[:m.start()] + rep + code[m.end():]
                muts.append(dict(line=ln, kind=kind, old=code, new=new))
    m = re.match(r'^(\s*)(else\s+)?if\s*\((.*)\)\s*(\{)?\s*$', code)
    if m and code.count('(') == code.count(')'):
        muts.append(dict(line=ln, kind='negate', old=code, new='%s%sif (!(%s)) %s' % (m.group(1), m.group(2) or '', m.group(3), m.group(4) or '')))
    # statement deletion: single-line call or assignment statements (not declarations, not return/goto/break)
    if re.match(r'^\s*[\w\->\.\[\]\*\(\) ]+(=|\+=|-=|\|=|&=|\^=|\+\+|--)[^=].*;\s*$', code) or re.match(r'^\s*[\w\->\.]+\s*\(.*\);\s*$', code):
        if not re.match(r'^\s*(return|goto|break|continue|p?(u?int|size|ssize|boolean|pointer|char|long|double)\b|const|struct|static|P\w+\s+\*?\w+\s*(=|;))', code) and code.count('(') == code.count(')'):
            ind = re.match(r'^\s*', code).group(0)
            muts.append(dict(line=ln, kind='delete', old=code, new=ind + ';'))
# dedupe
seen = set(); uniq = []
for m in muts:
    k = (m['line'], m['new'])
    if k in seen or m['new'] == m['old']: continue
    seen.add(k); uniq.append(m)
random.Random(a.seed).shuffle(uniq)
sel = uniq[:a.max]
if a.survivors_of:
    prev = json.load(open(a.survivors_of))
    want = {(x['line'], x['new']) for x in prev['survivors']}
    sel = [m for m in uniq if (m['line'], m['new'].strip()) in want]
print('%d candidate mutants in %s lines %d-%d, running %d' % (len(uniq), a.file, lo, hi, len(sel)), flush=True)

def sh(cmd, **kw): return subprocess.run(cmd, shell=True, stdout=subprocess.PIPE, stderr=subprocess.STDOUT, text=True, **kw)
q = queue.Queue()
for i, m in enumerate(sel): q.put((i, m))
results = [None] * len(sel)
def worker(slot):
    wt = '/tmp/am_%s_%d' % (hashlib.sha1((a.file + a.tag).encode()).hexdigest()[:6], slot)
    sh('git -C /repo worktree remove --force %s 2>/dev/null; rm -rf %s; git -C /repo worktree add --detach %s HEAD' % (wt, wt, wt))
    # uncommitted fix state of /repo is not expected; the worktree is HEAD
    path = os.path.join(wt, a.file)
    orig = open(path).read()
    try:
        while True:
            try: i, m = q.get_nowait()
            except queue.Empty: break
            lines = orig.split('\n'); assert lines[m['line'] - 1] == m['old']
            lines[m['line'] - 1] = m['new']
            open(path, 'w').write('\n'.join(lines))
            r = dict(m); r['caught_by'] = None; t0 = time.time()
            for p in props:
                c = subprocess.run(['./check', p, '--tier', a.tier], cwd='/verif', env=dict(os.environ, VERIF_REPO=wt), stdout=subprocess.PIPE, stderr=subprocess.STDOUT, text=True)
                out = c.stdout
                if c.returncode == 1 and 'VIOLATION' in out:
                    v = [l.strip() for l in out.splitlines() if l.strip().startswith('verdict=')]
                    r['caught_by'] = p; r['verdict'] = (v[0][:200] if v else ''); break
                if c.returncode not in (0, 1) or ('error:' in out and 'ninja' in out) or 'build failed' in out.lower():
                    r['caught_by'] = 'BUILD'; r['verdict'] = out[-300:]; break
            r['wall_s'] = round(time.time() - t0, 1)
            results[i] = r
            print('%4d L%-4d %-7s %-8s %s' % (i, m['line'], m['kind'], r['caught_by'] or 'SURVIVED', m['new'].strip()[:90]), flush=True)
    finally:
        sh('git -C /repo worktree remove --force %s 2>/dev/null; rm -rf %s' % (wt, wt))
        shutil.rmtree('/tmp/verif-build-' + hashlib.sha1(wt.encode()).hexdigest()[:10], ignore_errors=True)
ths = [threading.Thread(target=worker, args=(k,)) for k in range(a.jobs)]
[t.start() for t in ths]; [t.join() for t in ths]
res = [r for r in results if r]
surv = [r for r in res if not r['caught_by']]
os.makedirs('/verif/automut', exist_ok=True)
out = dict(file=a.file, props=props, tier=a.tier, seed=a.seed, lines=[lo, hi], candidates=len(uniq), run=len(res), caught=sum(1 for r in res if r['caught_by'] and r['caught_by'] != 'BUILD'),
           build_errors=sum(1 for r in res if r['caught_by'] == 'BUILD'), survived=len(surv), survivors=[dict(line=r['line'], kind=r['kind'], old=r['old'].strip(), new=r['new'].strip()) for r in surv],
           caught_detail=[dict(line=r['line'], kind=r['kind'], new=r['new'].strip(), by=r['caught_by'], verdict=r.get('verdict', '')[:160]) for r in res if r['caught_by']])
json.dump(out, open('/verif/automut/%s%s.json' % (a.file.replace('/', '_'), a.tag), 'w'), indent=1)
print('caught %d, build errors %d, survived %d of %d' % (out['caught'], out['build_errors'], out['survived'], out['run']))
