"""Writes /verif/MANIFEST.json from the property table (keeps it valid and current)."""
import json, os
from . import props as P
from . import build as B

ALL = ['C%02d' % i for i in range(1, 21)]

LEVEL_TEXT = {}
LEVEL_NOTE = {}
TECHNIQUE = {}
NOT_BUILT = {}  # pid -> reason, for properties not (yet) claimed


def write():
    checks = []
    for pid in ALL:
        if pid not in P.PROPS:
            continue
        p = P.PROPS[pid]
        checks.append(dict(
            property_id=pid,
            quick_cmd='./check %s --tier quick' % pid,
            thorough_cmd='./check %s --tier thorough' % pid,
            evidence_file='/verif/evidence/%s.json' % pid,
            replay_cmd_template='./check %s --replay {path}' % pid,
            engine=', '.join(sorted({s.harness for s in p.subs})),
            level_claimed=dict(category=p.level, text=P.LEVEL_TEXT.get(pid, ''), design_ref='DESIGN.md ' + p.design_ref),
            level_note=P.LEVEL_NOTE.get(pid, ''),
            technique=P.TECHNIQUE.get(pid, ''),
        ))
    na = [dict(property_id=pid, reason=P.NOT_CLAIMED.get(pid, 'check not built yet in this session; planned, see DESIGN.md section 7 (build order)'))
          for pid in ALL if pid not in P.PROPS]
    m = dict(
        version=1,
        setup_cmd='./check --setup',
        hooks=dict(guard='PLIBSYS_VERIF', enable='none needed: no source hooks; checks compile /repo/src with their own flags and interpose on compiled objects (objcopy --redefine-syms, -fsanitize-coverage=trace-pc) and public API (p_mem_set_vtable)',
                   baseline_off_cmd='cmake -G Ninja -B /repo/_build -S /repo && cmake --build /repo/_build && ctest --test-dir /repo/_build -j8 --timeout 900',
                   source_commits=[], add_only=True),
        engines=P.ENGINES,
        checks=checks,
        notes='All checks are property-based tests / fuzzing: generated inputs, histories, schedules and fault plans against explicit oracles. '
              'Known findings: /verif/known_findings.jsonl. Seeded breaking changes used for sensitivity: /verif/seeded/. See DESIGN.md.',
        not_applicable=na,
    )
    with open(os.path.join(B.VERIF, 'MANIFEST.json'), 'w') as f:
        json.dump(m, f, indent=1)
        f.write('\n')
