"""Build layer: library configurations + harness binaries, from /repo's working tree.

Everything is (re)built incrementally by a generated Ninja file under the build root.
The truth about which sources/defines make up the library comes from /repo's own CMake
description (configure only; compile_commands.json + generated plibsysconfig.h)."""
import json, os, subprocess, sys, hashlib, shlex, re

VERIF = os.path.dirname(os.path.dirname(os.path.abspath(__file__)))
REPO = os.environ.get('VERIF_REPO', '/repo')


def build_root():
    if REPO == '/repo':
        return os.path.join(VERIF, 'build')
    # scratch copies (mutation self-test) get their own build root outside /verif
    h = hashlib.sha1(REPO.encode()).hexdigest()[:10]
    return os.environ.get('VERIF_BUILD', '/tmp/verif-build-' + h)


SAN = '-fsanitize=address,undefined -fno-sanitize-recover=undefined -fno-omit-frame-pointer'

# name -> description of a library configuration
CONFIGS = {
    'gcc-asan': dict(cc='gcc', cxx='g++', cflags='-O1 -g ' + SAN, atomic='c11', rwlock='posix'),
    'gcc-asan-general': dict(cc='gcc', cxx='g++', cflags='-O1 -g ' + SAN, atomic='c11', rwlock='general'),
    'gcc-asan-sim': dict(cc='gcc', cxx='g++', cflags='-O1 -g ' + SAN, atomic='sim', rwlock='posix'),
    'gcc-asan-sync': dict(cc='gcc', cxx='g++', cflags='-O1 -g ' + SAN, atomic='sync', rwlock='posix'),
    'clang-fuzz': dict(cc='clang', cxx='clang++',
                       cflags='-O1 -g -fsanitize=fuzzer-no-link,address,undefined -fno-sanitize-recover=undefined -fno-omit-frame-pointer',
                       atomic='sync', rwlock='posix'),
    'gcc-tsan-c11': dict(cc='gcc', cxx='g++', cflags='-O1 -g -fsanitize=thread', atomic='c11', rwlock='posix'),
    'gcc-tsan-sim': dict(cc='gcc', cxx='g++', cflags='-O1 -g -fsanitize=thread', atomic='sim', rwlock='posix'),
    'gcc-tsan-general': dict(cc='gcc', cxx='g++', cflags='-O1 -g -fsanitize=thread', atomic='c11', rwlock='general'),
    'gcc-plain-c11': dict(cc='gcc', cxx='g++', cflags='-O2 -g', atomic='c11', rwlock='posix'),
    'gcc-plain-sync': dict(cc='gcc', cxx='g++', cflags='-O2 -g', atomic='sync', rwlock='posix'),
    'gcc-plain-sim': dict(cc='gcc', cxx='g++', cflags='-O2 -g', atomic='sim', rwlock='posix'),
}
# deterministic-scheduler configurations: atomics/spinlock objects get trace-pc callbacks,
# pthread symbols of all objects are redirected to the scheduler's model (vs_*)
for _a in ('c11', 'sync', 'sim'):
    for _r in ('posix', 'general'):
        CONFIGS['dsched-%s-%s' % (_a, _r)] = dict(
            cc='gcc', cxx='g++', cflags='-O1 -g', atomic=_a, rwlock=_r,
            per_file_flags={'patomic-': '-fsanitize-coverage=trace-pc', 'pspinlock-': '-fsanitize-coverage=trace-pc'},
            redefine='engines/dsched/redefine.syms')
# fault-wrapper configurations: libc calls of selected objects redirected to vs_* wrappers
CONFIGS['gcc-asan-wrapipc'] = dict(cc='gcc', cxx='g++', cflags='-O1 -g ' + SAN, atomic='c11', rwlock='posix',
                                   redefine='engines/ipcx/redefine.syms',
                                   redefine_only=('psemaphore-posix.c', 'pshm-posix.c', 'psysclose-unix.c'))
CONFIGS['gcc-asan-wrapnet'] = dict(cc='gcc', cxx='g++', cflags='-O1 -g ' + SAN, atomic='c11', rwlock='posix',
                                   redefine='engines/netx/redefine.syms',
                                   redefine_only=('psocket.c', 'psysclose-unix.c', 'puthread.c', 'psemaphore-posix.c', 'pshm-posix.c'))

HARNESSES = {}  # filled by props.py: name -> dict(src, config, libs, cxxflags, extra_srcs)


def harness(name, src, config, libs='-lrapidcheck', cxxflags='', extra=(), linkflags=''):
    HARNESSES[name] = dict(src=src, config=config, libs=libs, cxxflags=cxxflags, extra=list(extra), linkflags=linkflags)


def ensure_ref():
    """Configure /repo's CMake once (cheap no-op later) to learn sources and defines."""
    root = build_root()
    ref = os.path.join(root, 'ref')
    cc = os.path.join(ref, 'compile_commands.json')
    stale = True
    if os.path.exists(cc):
        t = os.path.getmtime(cc)
        srcs = [os.path.join(REPO, 'CMakeLists.txt'), os.path.join(REPO, 'src', 'CMakeLists.txt'),
                os.path.join(REPO, 'src', 'plibsysconfig.h.in')]
        stale = any(os.path.exists(s) and os.path.getmtime(s) > t for s in srcs)
    if stale:
        os.makedirs(ref, exist_ok=True)
        r = subprocess.run(['cmake', '-S', REPO, '-B', ref, '-G', 'Ninja', '-DCMAKE_EXPORT_COMPILE_COMMANDS=ON',
                            '-DPLIBSYS_TESTS=OFF', '-DPLIBSYS_BUILD_DOC=OFF', '-DCMAKE_BUILD_TYPE=RelWithDebInfo'],
                           stdout=subprocess.PIPE, stderr=subprocess.STDOUT, text=True)
        if r.returncode != 0:
            sys.stderr.write(r.stdout)
            raise SystemExit('HARNESS-ERROR: cmake configure of %s failed' % REPO)
        os.utime(cc, None)
    entries = json.load(open(cc))
    srcs, defines, incs = [], None, None
    seen = set()
    for e in entries:
        f = e['file']
        if not f.startswith(os.path.join(REPO, 'src') + os.sep) or f in seen:
            continue
        seen.add(f)
        srcs.append(f)
        if defines is None:
            toks = shlex.split(e['command'])
            defines = [t for t in toks if t.startswith('-D') and t not in ('-DNDEBUG', '-Dplibsys_EXPORTS')]
            incs = [t for t in toks if t.startswith('-I')]
    return srcs, defines, incs


def model_sources(srcs, atomic, rwlock):
    out = []
    for s in srcs:
        b = os.path.basename(s)
        m = re.match(r'patomic-(\w+)\.c$', b)
        if m:
            s = os.path.join(os.path.dirname(s), 'patomic-%s.c' % atomic)
        m = re.match(r'pspinlock-(\w+)\.c$', b)
        if m:
            s = os.path.join(os.path.dirname(s), 'pspinlock-%s.c' % atomic)
        m = re.match(r'prwlock-(\w+)\.c$', b)
        if m:
            s = os.path.join(os.path.dirname(s), 'prwlock-%s.c' % rwlock)
        out.append(s)
    return out


def nesc(p):
    return p.replace('$', '$$').replace(' ', '$ ').replace(':', '$:')


def generate(harness_names):
    srcs, defines, incs = ensure_ref()
    root = build_root()
    os.makedirs(root, exist_ok=True)
    lines = ['ninja_required_version = 1.5', 'builddir = ' + root, '']
    lines += ['rule cc', '  command = $cc $flags -MD -MF $out.d -c $in -o $out', '  depfile = $out.d', '  deps = gcc',
              '  description = CC $out', '']
    lines += ['rule redefine', '  command = objcopy --redefine-syms=$syms $in $out', '  description = OBJCOPY $out', '']
    lines += ['rule ar', '  command = rm -f $out && ar rcs $out $in', '  description = AR $out', '']
    lines += ['rule link', '  command = $cxx $flags $in $libs -o $out', '  description = LINK $out', '']
    need_cfg = sorted({HARNESSES[h]['config'] for h in harness_names})
    for cfg in need_cfg:
        c = CONFIGS[cfg]
        objs = []
        flags = ' '.join([c['cflags'], '-fPIC -fvisibility=hidden -Wno-error'] + defines + incs)
        for s in model_sources(srcs, c['atomic'], c['rwlock']):
            b = os.path.basename(s)
            o = os.path.join(root, cfg, 'obj', b + '.o')
            f = flags
            for pref, extra in c.get('per_file_flags', {}).items():
                if b.startswith(pref):
                    f += ' ' + extra
            if c.get('redefine') and (not c.get('redefine_only') or b in c['redefine_only']):
                raw = os.path.join(root, cfg, 'raw', b + '.o')
                lines += ['build %s: cc %s' % (nesc(raw), nesc(s)), '  cc = ' + c['cc'], '  flags = ' + f]
                symf = os.path.join(VERIF, c['redefine'])
                lines += ['build %s: redefine %s | %s' % (nesc(o), nesc(raw), nesc(symf)), '  syms = ' + symf]
            else:
                lines += ['build %s: cc %s' % (nesc(o), nesc(s)), '  cc = ' + c['cc'], '  flags = ' + f]
            objs.append(o)
        lib = os.path.join(root, cfg, 'libplibsys.a')
        lines += ['build %s: ar %s' % (nesc(lib), ' '.join(nesc(o) for o in objs)), '']
    for h in harness_names:
        d = HARNESSES[h]
        c = CONFIGS[d['config']]
        lib = os.path.join(root, d['config'], 'libplibsys.a')
        out = os.path.join(root, d['config'], 'bin', h)
        cxx = c['cxx']
        base = c['cflags'].replace('-fsanitize=fuzzer-no-link,', '-fsanitize=')
        flags = ' '.join(['-std=gnu++17', base, d['cxxflags'], '-DVERIF_CFG_ATOMIC_%s=1 -DVERIF_CFG_RWLOCK_%s=1' % (c['atomic'], c['rwlock'])] + incs + ['-I' + os.path.join(VERIF, 'vlib')])
        hobjs = []
        for src in [d['src']] + d['extra']:
            so = os.path.join(root, d['config'], 'hobj', h, os.path.basename(src) + '.o')
            lines += ['build %s: cc %s' % (nesc(so), nesc(os.path.join(VERIF, src))), '  cc = ' + cxx, '  flags = ' + flags]
            hobjs.append(so)
        lines += ['build %s: link %s' % (nesc(out), ' '.join(nesc(i) for i in hobjs + [lib])), '  cxx = ' + cxx,
                  '  flags = ' + base + ' ' + d.get('linkflags', ''), '  libs = %s -lpthread -ldl -lrt' % d['libs'], '']
    path = os.path.join(root, 'build.ninja')
    text = '\n'.join(lines) + '\n'
    old = open(path).read() if os.path.exists(path) else None
    if old != text:
        with open(path, 'w') as f:
            f.write(text)
    return path


def build(harness_names, quiet=True):
    harness_names = sorted(set(harness_names))
    # always generate rules for all registered harnesses so build.ninja is stable
    path = generate(sorted(HARNESSES))
    root = build_root()
    targets = [os.path.join(root, HARNESSES[h]['config'], 'bin', h) for h in harness_names]
    r = subprocess.run(['ninja', '-f', path, '-j', str(os.cpu_count() or 8)] + targets,
                       stdout=subprocess.PIPE, stderr=subprocess.STDOUT, text=True)
    if r.returncode != 0:
        sys.stderr.write(r.stdout[-6000:])
        raise SystemExit('HARNESS-ERROR: build failed (this is not a property violation)')
    return {h: t for h, t in zip(harness_names, targets)}
