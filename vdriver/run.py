"""Driver core: run sub-checks of a property in parallel shards, merge stats, apply the
replay-before-report rule and the known-findings rule, write the evidence file."""
import json, os, subprocess, sys, time, shutil, glob, concurrent.futures as cf
from . import build as B

VERIF = B.VERIF
NCPU = os.cpu_count() or 8


class Sub:
    """One sub-check: a harness binary run in `shards` processes with given env."""

    def __init__(self, name, harness, shards=(8, 16), cases=(300, 3000), maxsize=(100, 200), env=None,
                 args=None, timeout=(600, 3600), tiers=('quick', 'thorough'), kind='rapidcheck', fuzz=None):
        self.name, self.harness = name, harness
        self.shards, self.cases, self.maxsize = shards, cases, maxsize
        self.env = env or {}
        self.args = args or []
        self.timeout = timeout
        self.tiers = tiers
        self.kind = kind      # rapidcheck | fuzz | custom
        self.fuzz = fuzz or {}


class Prop:
    def __init__(self, pid, level, subs, rule, assumptions, corpus_harness=None, design_ref=''):
        self.pid, self.level, self.subs = pid, level, subs
        self.rule, self.assumptions = rule, assumptions
        self.corpus_harness = corpus_harness  # harness used for corpus/<id>/*.case replays
        self.design_ref = design_ref


def _racy(pid, s, f):
    """Findings whose reproduction depends on real concurrency or on when a real signal lands: stress sub-checks, failure classes the
    harness marks 'concurrent...', and C19 (signal storms are delivered by a thread on the wall clock; the oracles themselves are exact, so a
    failing replay is a violation whenever it happens) must reproduce at least once in five replays; everything else three times in three."""
    return s.kind == 'stress' or f.get('class', '').startswith('concurrent') or pid == 'C19'

def load_known():
    path = os.path.join(VERIF, 'known_findings.jsonl')
    out = []
    if os.path.exists(path):
        for l in open(path):
            l = l.strip()
            if l and not l.startswith('#'):
                out.append(json.loads(l))
    return out


def run_proc(cmd, env, timeout, cwd=None):
    t0 = time.time()
    try:
        r = subprocess.run(cmd, env=env, stdout=subprocess.PIPE, stderr=subprocess.STDOUT, timeout=timeout, cwd=cwd)
        out = r.stdout.decode('utf-8', 'replace')
        return r.returncode, out, time.time() - t0, False
    except subprocess.TimeoutExpired as e:
        out = (e.stdout or b'').decode('utf-8', 'replace')
        return -999, out, time.time() - t0, True


def base_env(pid, tier, seed):
    env = dict(os.environ)
    env['VERIF_PROP'] = pid
    env['VERIF_TIER'] = tier
    env['ASAN_OPTIONS'] = 'detect_leaks=0:abort_on_error=0:allocator_may_return_null=1:handle_abort=0:detect_stack_use_after_return=0:malloc_context_size=6'
    env['UBSAN_OPTIONS'] = 'print_stacktrace=1:halt_on_error=1:abort_on_error=1'
    env['TSAN_OPTIONS'] = 'halt_on_error=1:second_deadlock_stack=1:report_signal_unsafe=0:suppressions=' + os.path.join(VERIF, 'vdriver', 'tsan.supp')   # one tool artifact, explained in the file
    env.pop('RC_PARAMS', None)
    return env


def replay_once(binpath, pid, tier, seed, path, extra_env=None, timeout=1800):
    env = base_env(pid, tier, seed)
    env['VERIF_REPLAY_DIR'] = os.path.join(B.build_root() if B.REPO != '/repo' else VERIF, 'replays', pid)
    os.makedirs(env['VERIF_REPLAY_DIR'], exist_ok=True)
    env.pop('VERIF_STATS', None)
    # a case found while known-finding classes were excluded by construction means what it meant then: the exclusion list travels with
    # the replay file ("#exclude a,b")
    try:
        for l in open(path, errors='replace').read(4096).split('\n')[:6]:
            if l.startswith('#exclude '):
                env['VERIF_EXCLUDE'] = l[len('#exclude '):].strip()
    except Exception:
        pass
    if extra_env:
        env.update(extra_env)
    rc, out, dt, to = run_proc([binpath, '--replay', path], env, timeout)
    # verdict: REPLAY-OK => holds ; anything else (REPLAY-FAIL, crash) => fails
    if to:
        return None, out   # inconclusive
    ok = (rc == 0 and 'REPLAY-OK' in out)
    return (not ok), out


def minimize_lines(binpath, pid, tier, seed, path, skey, extra_env, budget=120):
    """ddmin-lite over the lines of a replay file: the first non-comment line (case header) is kept, every other line is a
    candidate for removal (chunks first, then single lines). A candidate is accepted only if the replay still dies with the same
    sanitizer key.  Returns the number of lines removed; the file is rewritten in place (original kept as <path>.orig)."""
    lines = open(path, errors='replace').read().split('\n')
    while lines and lines[-1] == '':
        lines.pop()
    head = [i for i, l in enumerate(lines) if l and not l.startswith('#')][:1]
    if not head or len(lines) - head[0] < 3:
        return 0
    fixed, body = lines[:head[0] + 1], lines[head[0] + 1:]
    tmp = path + '.min'
    runs = [0]

    def still_fails(cand):
        if runs[0] >= budget:
            return False
        runs[0] += 1
        open(tmp, 'w').write('\n'.join(fixed + cand) + '\n')
        fails, out = replay_once(binpath, pid, tier, seed, tmp, extra_env=extra_env, timeout=300)
        if not fails:
            return False
        sv = sanitizer_verdict(pid, out)
        return bool(sv and sv[0] == skey)
    n0 = len(body)
    chunk = max(1, len(body) // 2)
    while chunk >= 1 and runs[0] < budget:
        i = 0
        progressed = False
        while i < len(body) and runs[0] < budget:
            cand = body[:i] + body[i + chunk:]
            if len(cand) < len(body) and still_fails(cand):
                body = cand
                progressed = True
            else:
                i += chunk
        if chunk == 1 and not progressed:
            break
        chunk = chunk // 2 if chunk > 1 else (1 if progressed else 0)
    try:
        os.remove(tmp)
    except OSError:
        pass
    if len(body) < n0:
        shutil.copy(path, path + '.orig')
        open(path, 'w').write('\n'.join(fixed + body) + '\n')
    return n0 - len(body)


def sanitizer_verdict(pid, out):
    """Turn a sanitizer report in a replay's output into (key, verdict); None if there is none."""
    import re
    m = re.search(r'(\S+?)([^/\s:]+\.[ch]):(\d+):\d+: runtime error: ([^\n]*)', out)
    if m:
        what = re.sub(r'-?\d+', 'N', m.group(4))[:60]
        return '%s:ubsan:%s:%s' % (pid, m.group(2), what.strip()), 'UBSan: %s:%s: %s' % (m.group(2), m.group(3), m.group(4))
    m = re.search(r'ERROR: (AddressSanitizer|ThreadSanitizer|LeakSanitizer): ([\w-]+)', out)
    if m:
        fm = re.search(r'#\d+ \S+ in (\w+) \S*/src/([\w.-]+):(\d+)', out)
        where = (fm.group(1) if fm else '?')
        return '%s:%s:%s:%s' % (pid, 'asan' if m.group(1) == 'AddressSanitizer' else m.group(1).lower(), m.group(2), where), \
            '%s: %s in %s' % (m.group(1), m.group(2), (fm.group(1) + ' ' + fm.group(2) + ':' + fm.group(3)) if fm else 'unknown frame')
    m = re.search(r'WARNING: ThreadSanitizer: ([^\n(]+)', out)
    if m:
        fm = re.search(r'#\d+ (\w+) \S*/src/([\w.-]+):(\d+)', out)
        return '%s:tsan:%s:%s' % (pid, m.group(1).strip().replace(' ', '-'), fm.group(1) if fm else '?'), 'TSan: ' + m.group(1).strip()
    return None


def finding_key_from_verdict(verdict):
    # verdict strings look like "C14:wrong-destroy-set: text"; key = first two fields
    parts = verdict.split(':')
    if len(parts) >= 2:
        return parts[0].strip() + ':' + parts[1].strip()
    return verdict[:60]


def run_property(prop, tier, seed, replay=None):
    pid = prop.pid
    t0 = time.time()
    tix = 0 if tier == 'quick' else 1
    scratch = B.REPO != '/repo'   # mutation self-test against a scratch copy: keep /verif/evidence and /verif/replays untouched
    replays_dir = os.path.join(B.build_root() if scratch else VERIF, 'replays', pid)
    os.makedirs(replays_dir, exist_ok=True)
    work = os.path.join(B.build_root(), 'work', pid)
    shutil.rmtree(work, ignore_errors=True)
    os.makedirs(work, exist_ok=True)

    subs = [s for s in prop.subs if tier in s.tiers]
    names = sorted({s.harness for s in subs} | ({prop.corpus_harness} if prop.corpus_harness else set()))
    bins = B.build(names)

    if replay:
        h = prop.corpus_harness or subs[0].harness
        # a replay file may name its harness in the first line: "#harness <name>"
        first = open(replay, errors='replace').readline().split()
        if len(first) >= 2 and first[0] == '#harness' and first[1] in B.HARNESSES:
            h = first[1]
            bins.update(B.build([h]))
        fails, out = replay_once(bins[h], pid, tier, seed, replay)
        sys.stdout.write(out)
        if fails:
            print('VIOLATION property=%s replay=%s' % (pid, replay))
            return 1
        return 0

    known = [k for k in load_known() if k['property'] == pid]
    violations = []       # (key, verdict, replay)
    known_hits = []
    exclude = []
    notes = []
    corpus_runs = 0

    # 1. probes of known findings: only if the probe still fails is the class excluded
    for k in known:
        if k.get('status') != 'known':
            continue
        probe = os.path.join(VERIF, k['probe']) if k.get('probe') else None
        if probe and os.path.exists(probe):
            h = k.get('harness') or prop.corpus_harness
            if h not in bins:
                bins.update(B.build([h]))
            fails, out = replay_once(bins[h], pid, tier, seed, probe, extra_env=k.get('env'))
            corpus_runs += 1
            if fails:
                known_hits.append(k)
                exclude.append(k['key'].split(':', 1)[1] if ':' in k['key'] else k['key'])
            else:
                notes.append('known finding %s: probe no longer fails; class generated and asserted normally' % k['key'])

    # 2. regression corpus (fixed defects, seeded mutants' shrunk cases, hand-written edge cases)
    cdir = os.path.join(VERIF, 'corpus', pid)
    probe_paths = {os.path.join(VERIF, k['probe']) for k in known if k.get('probe')}
    for path in sorted(glob.glob(os.path.join(cdir, '*.case'))):
        if path in probe_paths:
            continue
        h = prop.corpus_harness
        first = open(path, errors='replace').readline().split()
        if len(first) >= 2 and first[0] == '#harness' and first[1] in B.HARNESSES:
            h = first[1]
        if h not in bins:
            bins.update(B.build([h]))
        fails, out = replay_once(bins[h], pid, tier, seed, path)
        corpus_runs += 1
        if fails:
            verdict = ''
            for l in out.splitlines():
                if l.startswith('REPLAY-FAIL'):
                    verdict = l[len('REPLAY-FAIL'):].strip()
            if verdict:
                violations.append((finding_key_from_verdict(verdict), verdict, path))
            else:
                sv = sanitizer_verdict(pid, out)
                violations.append(sv + (path,) if sv else (pid + ':crash', out[-400:], path))

    # 3. generated search
    jobs = []
    for s in subs:
        n = s.shards[tix]
        for i in range(n):
            jobs.append((s, i, n))
    merged = dict(evaluations=0, nontrivial=0, fps=set(), classes={}, counters={}, exhaustive={}, samples=[], notes=[],
                  per_sub={})
    failures = []

    def run_job(job):
        s, i, n = job
        env = base_env(pid, tier, seed)
        sseed = (seed * 1000003 + i * 7919 + abs(hash(s.name)) % 1000) % (2 ** 31 - 1) + 1 if False else (seed * 1000 + i + 1)
        env['VERIF_SEED'] = str(sseed)
        env['VERIF_BASE_SEED'] = str(seed)
        env['VERIF_SHARD'] = str(i)
        env['VERIF_NSHARDS'] = str(n)
        env['VERIF_CASES'] = str(s.cases[tix])
        env['VERIF_MAXSIZE'] = str(s.maxsize[tix])
        env['VERIF_SUB'] = s.env.get('VERIF_SUB', 'all')
        env['VERIF_STATS'] = os.path.join(work, '%s.%d.stats.json' % (s.name, i))
        env['VERIF_REPLAY_DIR'] = replays_dir
        env['VERIF_WORK'] = os.path.join(work, '%s.%d.d' % (s.name, i))
        os.makedirs(env['VERIF_WORK'], exist_ok=True)
        if exclude:
            env['VERIF_EXCLUDE'] = ','.join(exclude)
        env['RC_PARAMS'] = 'seed=%d max_success=%d max_size=%d noshrink=%d' % (sseed, s.cases[tix], s.maxsize[tix], 1 if s.kind == 'stress' else 0)
        for k, v in s.env.items():
            env[k] = str(v[tix]) if isinstance(v, (tuple, list)) else str(v)
        cmd = [bins[s.harness]] + [a if not isinstance(a, (tuple, list)) else str(a[tix]) for a in s.args]
        if s.kind == 'fuzz':
            # libFuzzer campaign: fresh corpus directory + committed seed corpus, wall-clock bound, fixed seed (approximately reproducible;
            # the saved text case of a failure is the reproducible unit and is replayed through the ordinary harness)
            corp = os.path.join(env['VERIF_WORK'], 'corpus')
            os.makedirs(corp, exist_ok=True)
            seeds = os.path.join(VERIF, 'corpus', pid, 'fuzzseeds')
            secs = s.fuzz.get('secs', (12, 300))[tix]
            cmd = [bins[s.harness], corp] + ([seeds] if os.path.isdir(seeds) else []) + [
                '-max_total_time=%d' % secs, '-seed=%d' % sseed, '-print_final_stats=1', '-timeout=20', '-rss_limit_mb=3000',
                '-max_len=%d' % s.fuzz.get('max_len', 4096), '-artifact_prefix=' + os.path.join(env['VERIF_WORK'], 'artifact-'), '-verbosity=0']
        rc, out, dt, to = run_proc(cmd, env, s.timeout[tix], cwd=env['VERIF_WORK'])
        st = None
        if os.path.exists(env['VERIF_STATS']):
            try:
                st = json.load(open(env['VERIF_STATS']))
            except Exception:
                st = None
        return s, i, rc, out, dt, to, st

    with cf.ThreadPoolExecutor(max_workers=NCPU) as ex:
        results = list(ex.map(run_job, jobs))

    inconclusive = 0
    for s, i, rc, out, dt, to, st in results:
        ps = merged['per_sub'].setdefault(s.name, dict(evaluations=0, nontrivial=0, shards=0, wall_s=0.0))
        ps['shards'] += 1
        ps['wall_s'] = round(max(ps['wall_s'], dt), 2)
        if st:
            merged['evaluations'] += st.get('evaluations', 0)
            merged['nontrivial'] += st.get('nontrivial', 0)
            ps['evaluations'] += st.get('evaluations', 0)
            ps['nontrivial'] += st.get('nontrivial', 0)
            merged['fps'].update(st.get('fps', []))
            for k, v in st.get('classes', {}).items():
                merged['classes'][k] = merged['classes'].get(k, 0) + v
            for k, v in st.get('counters', {}).items():
                merged['counters'][k] = merged['counters'].get(k, 0) + v
            for k, v in st.get('exhaustive', {}).items():
                merged['exhaustive'][k] = merged['exhaustive'].get(k, True) and v
            for x in st.get('samples', []):
                if len(merged['samples']) < 12 and x not in merged['samples']:
                    merged['samples'].append(x)
            merged['notes'] += st.get('notes', [])
            for f in st.get('failures', []):
                failures.append((s, f))
                if f.get('class') == 'crash' and f.get('replay'):
                    try:   # what the dying process printed (sanitizer report), next to its replay file
                        open(f['replay'] + '.log', 'w').write(out[-30000:])
                    except Exception:
                        pass
        if to:
            inconclusive += 1
            notes.append('sub-check %s shard %d hit its time budget (inconclusive, not a violation)' % (s.name, i))
        elif rc != 0 and s.kind == 'fuzz' and not (st and st.get('failures')) and ('timeout' in out[-3000:] or 'out-of-memory' in out[-3000:] or 'slow-unit' in out[-3000:]):
            notes.append('libFuzzer shard %s/%d ended with a timeout / oom / slow-unit artifact: load noise, not a violation' % (s.name, i))
        elif rc != 0 and not (st and st.get('failures')):
            # died without recording a failure: harness problem or crash outside a case
            crashfile = os.path.join(replays_dir, 'harness-crash-%s-%d.log' % (s.name, i))
            open(crashfile, 'w').write(out[-20000:])
            failures.append((s, dict(sub=s.name, verdict='harness process exited %d without a recorded case; log %s' % (rc, crashfile),
                                     **{'class': 'harness-exit'}, replay=crashfile)))
    # exhaustive flags only count if every shard of that sub finished
    # 4. replay-before-report (one representative per (harness, class); the rest are counted, not replayed)
    seen_classes = {}
    reps = []
    for s, f in failures:
        ck = (s.harness, f.get('class', ''))
        if ck in seen_classes:
            seen_classes[ck] += 1
            continue
        seen_classes[ck] = 1
        reps.append((s, f))
    dup = sum(v - 1 for v in seen_classes.values())
    if dup:
        merged['counters']['failing_shards_of_an_already_reported_class'] = dup
    failures = reps
    for s, f in failures:
        path = f.get('replay', '')
        verdict = f.get('verdict', '')
        if f.get('class') == 'harness-exit' or not path.endswith('.case'):
            violations.append((pid + ':harness-exit', verdict, path))
            continue
        nfail, nrun = 0, 0
        last = ''
        for _ in range(5 if _racy(pid, s, f) else 3):
            rh = s.harness
            if s.kind == 'fuzz':
                rh = prop.corpus_harness
                if rh not in bins:
                    bins.update(B.build([rh]))
            xenv = {k: (str(v[tix]) if isinstance(v, (tuple, list)) else str(v)) for k, v in s.env.items()}
            if exclude:
                xenv['VERIF_EXCLUDE'] = ','.join(exclude)   # the candidate was found (and shrunk) with these classes excluded by construction
            if f.get('class') == 'cpu-budget':
                xenv['VERIF_CPU_BUDGET'] = '20'   # the case already exceeded the full budget once; the replays confirm that it reproduces
            fails, out = replay_once(bins[rh], pid, tier, seed, path, extra_env=xenv)
            nrun += 1
            if fails:
                nfail += 1
                last = out
                if nfail >= (1 if _racy(pid, s, f) else 3):
                    break
        # deterministic engines must fail 3/3; findings that depend on real concurrency (stress sub-checks, and failure classes
        # the harness marks as 'concurrent…') must reproduce at least once
        racy = _racy(pid, s, f)
        need = 1 if racy else 3
        if nfail >= need:
            v2 = verdict
            got = False
            for l in last.splitlines():
                if l.startswith('REPLAY-FAIL'):
                    v2 = l[len('REPLAY-FAIL'):].strip()
                    got = True
            skey = None
            if not got:
                sv = sanitizer_verdict(pid, last)
                if sv:
                    skey, v2 = sv
            # sanitizer aborts bypass rapidcheck's shrinking: minimise such a replay here (line-wise delta debugging, accepted only
            # while the replay keeps failing with the same sanitizer key; bounded number of replays)
            if skey and f.get('class') == 'crash' and s.kind != 'fuzz':
                try:
                    removed = minimize_lines(bins[rh], pid, tier, seed, path, skey, xenv)
                    if removed:
                        notes.append('crash replay %s minimised: %d line(s) removed while the sanitizer verdict stayed %s' % (os.path.basename(path), removed, skey))
                except Exception as e:
                    notes.append('crash replay minimisation skipped: %r' % (e,))
            # make the replay file self-describing
            try:
                txt = open(path, errors='replace').read()
                if not txt.startswith('#harness'):
                    open(path, 'w').write('#harness %s\n' % (prop.corpus_harness if s.kind == 'fuzz' else s.harness) + ('#exclude %s\n' % ','.join(exclude) if exclude else '') + txt)
            except Exception:
                pass
            violations.append((skey or finding_key_from_verdict(v2), v2, path))
        else:
            notes.append('candidate failure from %s did not reproduce (%d failing replays of %d) from its replay file (%s): unreproduced, not reported; its verdict was: %s' % (s.name, nfail, nrun, path, verdict[:300]))
            merged['counters']['unreproduced_candidates'] = merged['counters'].get('unreproduced_candidates', 0) + 1

    # 5. classify violations against the known-findings file
    out_viol = []
    known_keys = {k['key']: k for k in known if k.get('status') == 'known'}
    for key, verdict, path in violations:
        if key in known_keys:
            if known_keys[key] not in known_hits:
                known_hits.append(known_keys[key])
        else:
            out_viol.append((key, verdict, path))
    for k in known_hits:
        print('KNOWN-FINDING: property=%s %s' % (pid, k['what']))

    wall = time.time() - t0
    distinct = len(merged['fps'])
    samples = merged['samples'][:10]
    if not samples:
        samples = ['(no non-trivial case was recorded by this run)']
    ev = dict(
        property_id=pid, tier=tier, seed=seed, level=prop.level,
        coverage=dict(
            evaluations=merged['evaluations'] + corpus_runs,
            distinct_nontrivial=distinct,
            nontrivial_executions=merged['nontrivial'],
            rule=prop.rule,
            samples=samples,
            classes=dict(sorted(merged['classes'].items())),
            counters=dict(sorted(merged['counters'].items())),
            per_subcheck=merged['per_sub'],
            corpus_replays=corpus_runs,
            exhaustive_subruns=merged['exhaustive'],
            excluded_known_classes=exclude,
            known_findings_confirmed=[k['key'] for k in known_hits],
            inconclusive_shards=inconclusive,
            notes=notes + sorted(set(merged['notes']))[:20],
        ),
        assumptions=prop.assumptions,
        wall_s=round(wall, 2),
        violations=len(out_viol),
    )
    if merged['exhaustive'] and all(merged['exhaustive'].values()) and inconclusive == 0:
        ev['coverage']['exhaustive_note'] = 'the sub-runs listed under exhaustive_subruns enumerated their stated finite spaces completely; the random sub-runs are samples'
    evdir = os.path.join(B.build_root() if scratch else VERIF, 'evidence')
    os.makedirs(evdir, exist_ok=True)
    with open(os.path.join(evdir, pid + '.json'), 'w') as f:
        json.dump(ev, f, indent=1, sort_keys=False)
        f.write('\n')
    for key, verdict, path in out_viol:
        print('VIOLATION property=%s replay=%s' % (pid, path))
        print('  key=%s' % key)
        print('  verdict=%s' % verdict.replace('\n', ' ')[:500])
    unrep = merged['counters'].get('unreproduced_candidates', 0)
    for n in notes:
        if 'did not reproduce' in n or 'hit its time budget' in n:
            print('NOTE: ' + n[:400])
    print('%s %s: %d evaluations, %d distinct non-trivial, %d violation(s), %d known finding(s), %.1fs%s' % (
        pid, tier, ev['coverage']['evaluations'], distinct, len(out_viol), len(known_hits), wall,
        (' [%d candidate(s) did not reproduce and were not reported - the shards that raised them stopped early]' % unrep) if unrep else ''))
    return 1 if out_viol else 0
