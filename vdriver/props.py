"""Property table: which harnesses / sub-checks decide which property."""
from .build import harness
from .run import Sub, Prop

PROPS = {}


def reg(p):
    PROPS[p.pid] = p


# ---- harness binaries -----------------------------------------------------------------
harness('tree', 'engines/seq/tree.cpp', 'gcc-asan')

# ---- C12 / C13 / C14: trees ---------------------------------------------------------------
_tree_assume = [
    'comparators are total orders by construction; traversal callbacks never call back into the tree',
    'tree shape is observed through the public API only (recording comparator during lookups)',
    'built with gcc -O1 ASan+UBSan from /repo working tree; not the shipped -O2 objects',
]
reg(Prop('C12', 'exploration', [
    Sub('exh', 'tree', shards=(8, 16), cases=(1, 1), env={'VERIF_SUB': 'exh'}),
    Sub('rand', 'tree', shards=(8, 16), cases=(1500, 8000), maxsize=(120, 400), env={'VERIF_SUB': 'rand'}),
], rule='bounded-exhaustive: all insertion orders of n<=6 (thorough 7) keys x all removal orders for n<=5 (6), all op sequences of '
        'length<=5 (6) over 3 keys, for each tree type; random: rapidcheck sequences of insert/remove/lookup/foreach(stop)/clear/bulk ops '
        'over universes of 3, 8, 64, 5000 keys, 3 comparators, 3 constructors. Oracle: std::map under the same order, full scan after every '
        'mutating command. Non-trivial = sequence with >=1 replace, >=1 removal of a two-child node (measured from the reconstructed shape) '
        'and >=1 early-stopped traversal in a tree of >=3 nodes; distinct = distinct case text (FNV-1a).',
    assumptions=_tree_assume, corpus_harness='tree', design_ref='4/C12'))
reg(Prop('C13', 'exploration', [
    Sub('exh', 'tree', shards=(8, 16), cases=(1, 1), env={'VERIF_SUB': 'exh'}),
    Sub('rand', 'tree', shards=(8, 16), cases=(300, 5000), maxsize=(120, 400), env={'VERIF_SUB': 'rand'}),
    Sub('big', 'tree', shards=(8, 12), cases=(1, 1), env={'VERIF_SUB': 'big', 'VERIF_CPU_BUDGET': 900}, timeout=(900, 3600)),
], rule='same generators as C12 restricted to RB and AVL plus adversarial bulk shapes (sorted/zig-zag/organ-pipe inserts, delete-min/max/median/root runs). Large-tree sub-run: 131 079 keys (thorough also 524 295 and 1 048 583) inserted ascending / descending / organ-pipe / zig-zag into RB and AVL trees, half removed, a quarter re-inserted, with content, shape and depth checked after each phase (retrace and fix-up paths longer than 16 levels exist only in such trees). '
        'Oracle: shape reconstructed from lookup comparison paths; AVL height difference <=1 at every node; RB shape colourable (exact DP); depth bounds. '
        'Non-trivial = sequence in which >=1 removal restructured the tree (some surviving key got deeper); distinct = distinct (type, post-rotation shapes) hash.',
    assumptions=_tree_assume, corpus_harness='tree', design_ref='4/C13'))
reg(Prop('C14', 'exploration', [
    Sub('exh', 'tree', shards=(8, 16), cases=(1, 1), env={'VERIF_SUB': 'exh'}),
    Sub('rand', 'tree', shards=(8, 16), cases=(1500, 8000), maxsize=(120, 400), env={'VERIF_SUB': 'rand'}),
], rule='C12 command sequences on trees with key+value, key-only, value-only and no notifiers; keys/values are tagged heap objects freed by the notifier '
        '(ASan sees any later use). Oracle: per command, the set of (id, kind) passed to notifiers equals the set the model says left the tree; never twice; '
        'objects without notifier untouched. Non-trivial = >=1 two-child removal followed by a command touching the tree and >=1 replace.',
    assumptions=_tree_assume, corpus_harness='tree', design_ref='4/C14'))

# ---- manifest texts -----------------------------------------------------------------------
ENGINES = [
    dict(name='seq', path='engines/seq', serves_properties=['C12', 'C13', 'C14'],
         kind_free_text='rapidcheck model-based harnesses for sequential modules, plus bounded-exhaustive enumerations'),
]
NOT_CLAIMED = {}
LEVEL_TEXT = {
    'C12': 'Generated operation sequences compared step by step with std::map; bounded-exhaustive for tiny key universes (flagged), random for large ones. Exploration: shows absence of divergence only on what was generated.',
    'C13': 'Balance invariants (AVL height difference, red-black colourability by exact DP, depth bounds) checked on the shape reconstructed through the public API after every mutating command of generated sequences.',
    'C14': 'Destroy-notifier log compared per command with the set of objects the model says left the tree; objects are freed by the notifier so ASan amplifies any premature destroy.',
}
LEVEL_NOTE = {
    'C12': 'Trusted: std::map as reference, harness comparator family (total orders), gcc ASan/UBSan build of /repo/src at -O1.',
    'C13': 'Trusted: shape reconstruction from comparison paths (checked for mutual consistency), DP for colourability. Node colours themselves are not observable and not asserted.',
    'C14': 'Trusted: model of which pair leaves the tree per command; notifier log. BST/RB/AVL all covered; clear/free included.',
}
TECHNIQUE = {
    'C12': 'property-based testing (rapidcheck, model-based vs std::map) + bounded-exhaustive enumeration',
    'C13': 'property-based testing (rapidcheck) with shape-invariant oracle + bounded-exhaustive enumeration',
    'C14': 'property-based testing (rapidcheck) with destroy-log oracle under ASan + bounded-exhaustive enumeration',
}

# ---- C15 ---------------------------------------------------------------------------------------
harness('htlist', 'engines/seq/htlist.cpp', 'gcc-asan')
reg(Prop('C15', 'exploration', [
    Sub('rand', 'htlist', shards=(16, 16), cases=(8000, 80000), maxsize=(150, 400)),
], rule='rapidcheck op sequences on PHashTable (insert/overwrite/remove/lookup/keys/values/lookup_by_value/free) and PList (append/prepend/remove/reverse/last/length/foreach/free); '
        'keys and values are pointer-sized bit patterns from 10 classes (NULL, all-ones, small, negative, low word INT_MAX-40..INT_MAX, high-word-only differences, '
        'same-bucket families base+101*j, random 64-bit, INT_MAX-adjacent with high word, INT_MIN/UINT_MAX-adjacent). Oracle: std::map / std::vector, listings compared as multisets, '
        'UBSan/ASan no-recover. Non-trivial = hash-table sequence with a removal from the middle of a chain of >=3 in one bucket or a key from the INT_MAX-adjacent classes; '
        'list sequence with a removal of a duplicated value and a reverse of a list of >=2. distinct = distinct case text.',
    assumptions=['keys/values are never dereferenced by the library (pointer identity) - generated as raw bit patterns',
                 'a stored value equal to the not-found marker (-1) is indistinguishable from absent by contract; the model returns the marker in both cases',
                 'gcc -O1 ASan+UBSan build'],
    corpus_harness='htlist', design_ref='4/C15'))
ENGINES[0]['serves_properties'].append('C15')
LEVEL_TEXT['C15'] = 'Generated operation sequences on hash table and list compared with std::map / std::vector after every mutating command; UBSan makes undefined behaviour for any key bit pattern a failure.'
LEVEL_NOTE['C15'] = 'Trusted: std containers as reference, UBSan/ASan instrumentation of phashtable.c/plist.c. Listing order is unspecified and compared as multiset.'
TECHNIQUE['C15'] = 'property-based testing (rapidcheck, model-based) under UBSan/ASan'

# ---- C17 ---------------------------------------------------------------------------------------
harness('sockaddr', 'engines/seq/sockaddr.cpp', 'gcc-asan')
reg(Prop('C17', 'exploration', [
    Sub('grid', 'sockaddr', shards=(4, 8), cases=(1, 1), env={'VERIF_SUB': 'grid'}),
    Sub('rand', 'sockaddr', shards=(12, 16), cases=(15000, 200000), maxsize=(100, 200), env={'VERIF_SUB': 'rand'}),
], rule='grid: 19 boundary IPv4 addresses x 6 ports x every native source length 0..36 x 6 destination lengths, and every IPv6 zero-run position x ports x lengths (exhaustive for that grid); '
        'random: native sockaddr_in/in6 images (boundary-biased octets, structured IPv6 incl. mapped/compatible/link-local/multicast, full-range flow/scope, foreign families, '
        'exact-size heap buffers of every length), strings (inet_ntop outputs, upper-case/uncompressed/embedded-v4/%scope variants, near-misses, single-character mutations, junk), new_any/new_loopback. '
        'Oracle: round trips native->object->native and text->object->text, getters, and the platform view computed by the harness with inet_pton/inet_ntop/getaddrinfo(AI_NUMERICHOST); '
        'acceptance iff the platform accepts; too-small buffers fail without access beyond them (ASan, canary). Non-trivial = native length within 2 of a structure size or <=2, v6 with zero run/flow/scope, '
        'v4 boundary octets, strings where v4/v6 parsers disagree, scoped or rejected dotted/colon strings. distinct = distinct case text.',
    assumptions=['scope names depend on the interfaces present: only %lo, numeric scopes and a nonexistent name are generated',
                 'strings are passed as C strings (cut at the first NUL)', 'gcc -O1 ASan+UBSan build'],
    corpus_harness='sockaddr', design_ref='4/C17'))
ENGINES[0]['serves_properties'].append('C17')
LEVEL_TEXT['C17'] = 'Round-trip and platform-differential oracles over generated addresses, strings and buffer lengths; the boundary grid is enumerated completely, the rest sampled.'
LEVEL_NOTE['C17'] = 'Trusted: glibc inet_pton/inet_ntop/getaddrinfo as the platform view; ASan for out-of-bounds accesses on exact-size heap buffers.'
TECHNIQUE['C17'] = 'property-based testing (rapidcheck): round-trip + differential vs platform, exhaustive boundary grid, ASan'

# ---- C11 ---------------------------------------------------------------------------------------
harness('hash', 'engines/seq/hash.cpp', 'gcc-asan', libs='-lrapidcheck -lcrypto -lnettle')
harness('hash_plain', 'engines/seq/hash.cpp', 'gcc-plain-c11', libs='-lrapidcheck -lcrypto -lnettle')
reg(Prop('C11', 'exploration', [
    Sub('rand', 'hash', shards=(10, 16), cases=(600, 20000), maxsize=(100, 300), env={'VERIF_SUB': 'rand'}),
    Sub('grid', 'hash', shards=(3, 8), cases=(1, 1), env={'VERIF_SUB': 'grid'}),
    Sub('large', 'hash_plain', shards=(7, 14), cases=(1, 1), env={'VERIF_SUB': 'large'}, timeout=(900, 3600)),
], rule='per algorithm (11): total lengths and chunk boundaries generated relative to the block size b (totals 0,1,b-9,b-8,b-1,b,b+1,2b-9..3b+5, random<=20000; chunkings single, bytewise, '
        '(buffered, chunk) grids, empty chunks interleaved, random), histories mixing update/get_string/get_digest(exact-size and too-small buffers)/reset/no-op updates; '
        'grid sub-run: every buffered fill 0..b-1 x 7 chunk lengths x 5 tail lengths per algorithm (exhaustive for that grid); large sub-run: one single update of 2^32(+k) bytes '
        '(64 MiB memfd tiled with MAP_FIXED) vs the reference fed the same bytes (quick: MD5, SHA-1, SHA-256; thorough: + SHA-224, SHA-512, SHA3-256, GOST and buffered prefixes). '
        'Oracle: OpenSSL EVP / nettle gosthash94cp digest of the bytes accepted while open; lower-case hex of the right length; repeatable reads; updates after a read ignored until reset. '
        'Non-trivial = an update crossing a block boundary with a non-empty buffer and a total within 9 bytes of a padding boundary, or an update after a read, or a large update; '
        'distinct = distinct (algorithm, sequence of (buffer fill, chunk residue) pairs, total mod b) fingerprint, i.e. distinct boundary shapes rather than payloads.',
    assumptions=['OpenSSL 3 EVP and nettle are correct references (self-checked against published vectors at start-up; failure is a harness error)',
                 'after get_digest with a too-small buffer it is unspecified whether the object is closed: no update is issued until the next real read or reset',
                 'large sub-run uses the gcc -O2 build without sanitizers for speed; all other sub-runs ASan+UBSan'],
    corpus_harness='hash', design_ref='4/C11'))
ENGINES[0]['serves_properties'].append('C11')
LEVEL_TEXT['C11'] = 'Differential testing against independent implementations (OpenSSL, nettle) over generated chunkings aimed at block/padding boundaries and over read/update/reset histories; includes single updates >= 2^32 bytes.'
LEVEL_NOTE['C11'] = 'Trusted: OpenSSL EVP and nettle gosthash94cp (checked against RFC/standard vectors at start-up).'
TECHNIQUE['C11'] = 'property-based differential testing (rapidcheck) vs OpenSSL/nettle + exhaustive boundary grid + metamorphic large-update cases'

# ---- C16 ---------------------------------------------------------------------------------------
harness('ini', 'engines/seq/ini.cpp', 'gcc-asan')
reg(Prop('C16', 'exploration', [
    Sub('grammar', 'ini', shards=(10, 16), cases=(4000, 40000), maxsize=(60, 120), env={'VERIF_SUB': 'grammar'}),
    Sub('robust', 'ini', shards=(6, 16), cases=(12000, 150000), maxsize=(100, 200), env={'VERIF_SUB': 'robust'}),
], rule='grammar: files rendered from a generated AST of the documented format (optional UTF-8 BOM, blank lines, comment lines with arbitrary text incl. "=", quotes, brackets; pre-section key lines; '
        'uniquely named sections with blanks around the name; key lines with plain / "double" / \'single\' / empty-quoted values, trailing ;/# comments, repeated keys, LF/CRLF, missing final newline, '
        'lines stretched to 1022-1024 bytes; typed values int/double/boolean/list). The expected content comes from the AST, not from a parser. robust: byte strings assembled from INI fragments, BOMs, NULs, '
        'raw bytes and long runs (1022..5000). Oracle: consistency invariants + defaults + no leak after free (tracking allocator) + ASan/UBSan for both; exact section/key sets, values and typed getters for grammar files. '
        'Non-trivial (grammar) = >=2 non-empty sections, >=1 repeated key, >=1 quoted value containing ; or #, and >=1 comment or pre-section line containing "="; (robust) = parser produced >=1 section. distinct = distinct file content.',
    assumptions=['regions where the documentation is silent are not generated: unquoted empty value (pinned as "key absent" by the shipped test), blanks just inside quotes, duplicate section names, comment markers inside keys, lines beyond 1024 bytes (robustness invariants only)',
                 'double getter compared with strtod within 1e-11 relative (the library conversion is digit-accumulating, not correctly rounded)', 'gcc -O1 ASan+UBSan build'],
    corpus_harness='ini', design_ref='4/C16'))
ENGINES[0]['serves_properties'].append('C16')
LEVEL_TEXT['C16'] = 'Robustness: generated byte strings must parse without memory errors into a consistent object. Grammar: files generated from the documented format are compared with the content their AST defines (sections, keys, values, typed getters).'
LEVEL_NOTE['C16'] = 'Trusted: the generator AST as the reference for well-formed files (independent of pinifile.c), strtod/strtol for typed values, ASan/UBSan, tracking allocator for leaks.'
TECHNIQUE['C16'] = 'property-based testing (rapidcheck): grammar-based generation with constructive oracle + byte-level robustness generation under ASan/UBSan'

# ---- C18 ---------------------------------------------------------------------------------------
harness('fault', 'engines/fault/fault.cpp', 'gcc-asan', libs='-lcrypto')
harness('fault_general', 'engines/fault/fault.cpp', 'gcc-asan-general', libs='-lcrypto')
harness('fault_sim', 'engines/fault/fault.cpp', 'gcc-asan-sim', libs='-lcrypto')
reg(Prop('C18', 'fault_enumeration', [
    Sub('enum', 'fault', shards=(16, 16), cases=(1, 1), timeout=(900, 3600)),
    Sub('enum_rwlock_general', 'fault_general', shards=(1, 2), cases=(1, 1), env={'VERIF_SCEN': 'rwlock,sync_objects'}),
    Sub('enum_spinlock_sim', 'fault_sim', shards=(1, 2), cases=(1, 1), env={'VERIF_SCEN': 'sync_objects,thread_create,thread_local,libsys_cycle'}),
], rule='scenario table (setup / window / check+teardown) over every allocating module compiled on Linux (trees x3, list, hash table, INI parse and queries, crypto hashes, directory iterator, errors, '
        'mutex/cond/spinlock/rwlock in posix, general and sim builds, time profiler, semaphore, shm, shm buffer, TCP/UDP sockets incl. accept/receive_from/address getters, socket addresses, strings, '
        'threads/TLS/foreign threads, library loader, init/shutdown) plus generated windows (whole random histories on tree / hash table / list where every operation must be atomic). '
        'Each scenario is run once with a counting allocator to learn N = requests inside the window, then once per k in 1..N and mode in {only request k fails, k and all later fail}, each in a forked ASan/UBSan child '
        '(quick: every k in both modes for the table scenarios and a third of the generated windows; thorough: all generated windows too). Oracle: child exits normally, no sanitizer report; '
        'pre-existing objects unchanged/usable per model; results are either failure values or correct/degraded content; after teardown no library block, descriptor, /dev/shm name or shared mapping remains. '
        'Non-trivial = the failing request is not the first of its window (k >= 2); distinct = distinct (scenario, k, mode).',
    assumptions=['only allocations that go through the p_mem_set_vtable table can be failed (libc-internal allocations of fopen/opendir/getaddrinfo/sem_open/dlopen cannot)',
                 'for calls that replace a field of their target (p_error_set_*) only validity of the target is asserted',
                 'NULL entries in lists returned by INI listing calls under allocation failure are tolerated as a degraded result'],
    corpus_harness='fault', design_ref='4/C18'))
ENGINES.append(dict(name='fault', path='engines/fault', serves_properties=['C18'], kind_free_text='fault injection: failing allocator (allocation index enumeration), fork per case, resource census'))
LEVEL_TEXT['C18'] = 'For every listed scenario the finite space of single-allocation failures (index k, once / from k on) is enumerated completely in the thorough tier; each run is checked for crash, leak and damage against a per-scenario model.'
LEVEL_NOTE['C18'] = 'Trusted: scenario table coverage of entry points (listed in the evidence), ASan/UBSan, tracking allocator and /proc census. Quick tier runs a third of the generated windows.'
TECHNIQUE['C18'] = 'fault-injection enumeration (failing allocator via p_mem_set_vtable) over hand-listed and generated call sequences, model-based oracle, ASan'

# ---- dsched harness binaries (one per library configuration) -------------------------------------
for _a in ('c11', 'sync', 'sim'):
    for _r in ('posix', 'general'):
        harness('dsched_%s_%s' % (_a, _r), 'engines/dsched/dsched.cpp', 'dsched-%s-%s' % (_a, _r))

_dsched_assume = [
    'execution under the scheduler is serialised and sequentially consistent: interleavings are explored at the granularity of schedule points (every redirected pthread call, every basic block of patomic-*/pspinlock-*, harness points); hardware reordering is not modelled',
    'the pthread primitives behind the library are a model owned by the scheduler (mutex, condition variable with optional spurious wake-ups, permissive rwlock grant rule); library objects are compiled from /repo/src and retargeted with objcopy --redefine-syms',
    'a case that exceeds the step bound or the 30 s watchdog is inconclusive, never a violation',
]
def _dsubs(configs, quick_cases, thorough_cases, exh=True):
    subs = []
    for cfg in configs:
        h = 'dsched_' + cfg
        if exh:
            subs.append(Sub('exh_' + cfg, h, shards=(2, 4), cases=(1, 1), env={'VERIF_SUB': 'exh'}, timeout=(900, 3600)))
        subs.append(Sub('rand_' + cfg, h, shards=(3, 6), cases=(quick_cases, thorough_cases), maxsize=(60, 100), env={'VERIF_SUB': 'rand'}, timeout=(900, 3600)))
    return subs

reg(Prop('C01', 'exploration', _dsubs(['c11_posix', 'sync_posix', 'sim_posix'], 2000, 20000),
    rule='lock programs: 2-4 threads x rounds of lock / trylock / unlock (one nesting level via trylock) over 1-3 locks of kind mutex|spinlock, generated with a schedule vector; executed under the deterministic scheduler for each '
         'atomic/spinlock model (c11, sync, sim). Bounded-exhaustive sub-run: every schedule with <= 2 (thorough 3) preemptions in the first 28 (40) points of 4 shaped programs. Oracle: shadow holder count never > 1 (checked at every schedule point), '
         'non-atomic protected record (counter + checksum) consistent inside every section and counter == sections executed, trylock FALSE only if the lock was held or contended during the call, TRUE never while held, no deadlock. '
         'Non-trivial = some acquisition found the lock held or contended and >= 2 threads executed sections on one lock; distinct = distinct executed trace (thread switch sequence) hash.',
    assumptions=_dsched_assume + ['the visibility clause is decided here only as far as a sequentially consistent execution can show it (lost/torn updates); weak-memory effects need the real-thread TSan runs'],
    corpus_harness='dsched_c11_posix', design_ref='4/C01, 3.1'))
reg(Prop('C02', 'exploration', _dsubs(['c11_general', 'c11_posix', 'sim_general'], 2500, 25000),
    rule='rw programs: 2-4 threads x rounds of reader/writer lock|trylock + unlock over 1-2 rwlocks, optional rendezvous barrier inside read sections (only on locks without writers), schedule vector with optional spurious condition-variable wake-ups; '
         'both implementations (general mutex+condvar model, native pthread model with a permissive grant rule). Bounded-exhaustive sub-run over 6 shaped programs. Oracle: shadow (readers, writers) invariant at every schedule point, trylock TRUE only when grantable and TRUE on a free uncontended lock, '
         'trylock never parks, protected record consistent, every program terminates (deadlock = enabled set empty is exact). Non-trivial = reader and writer rounds on one lock and >= 1 thread actually waited inside a lock call; distinct = distinct executed trace hash.',
    assumptions=_dsched_assume + ['starvation/fairness is not a violation; which waiter a signal wakes is a schedule choice'],
    corpus_harness='dsched_c11_general', design_ref='4/C02, 3.1'))
reg(Prop('C03', 'exploration', _dsubs(['c11_posix'], 1200, 20000),
    rule='condition-variable programs: bounded buffer (capacity 1-3, 1-3 producers x items, 1-3 consumers, signal or broadcast per wake-up site) and gate (2-4 waiters, one broadcast or W signals), predicate loops under the mutex, schedule vector with spurious wake-ups. '
         'Oracle: the model rejects a wait whose mutex argument is not the caller-held native mutex; wait releases+parks atomically and returns with the mutex held (shadow section holder); consumed multiset == produced, per-producer order; all threads terminate. '
         'Non-trivial = >= 2 threads waiting on one condition variable at once and >= 1 wake-up issued while waiters exist; distinct = distinct executed trace hash.',
    assumptions=_dsched_assume, corpus_harness='dsched_c11_posix', design_ref='4/C03, 3.1'))
reg(Prop('C04', 'exploration', _dsubs(['c11_posix', 'sync_posix', 'sim_posix'], 2000, 20000),
    rule='atomic histories: 2-3 threads x up to 4 operations (inc, dec_and_test, add, and, or, xor, compare_and_exchange, get, set; int and pointer width; operands from sign/wrap boundaries) on one shared word, schedule vector; for each atomic model. '
         'Oracle: exact linearizability - a search for a sequential order (respecting program order) in which every returned value, every dec_and_test/CAS result and the final value follow 32-bit / pointer-width wrapping C arithmetic. '
         'Non-trivial = >= 2 threads and >= 1 preemption inside the history; distinct = distinct executed trace hash.',
    assumptions=_dsched_assume + ['lock-free bodies (c11, sync) are single instructions between schedule points: splitting one inside a basic block is visible only to the real-thread stress sub-checks'],
    corpus_harness='dsched_c11_posix', design_ref='4/C04, 3.1'))
reg(Prop('C05', 'exploration', _dsubs(['sim_posix', 'c11_posix'], 3000, 30000),
    rule='thread programs: main creates 1-3 threads (joinable|detached, NULL/short/long name, return or p_uthread_exit(code) with boundary codes) whose bodies do TLS set/replace/get on 1-3 keys (with/without notifier), current(), ref/unref, yield; '
         'main does ref/unref/join in generated order consistent with the ownership model; schedule vector over every atomic operation (sim model: each atomic is a mutex-protected step). '
         'Oracle: join returns only after the body finished, with the exit code, and sees the thread\'s plain write; notifier exactly once for replaced values and values left at exit, never for set_local, never for another thread\'s value; get returns the caller\'s value; no deadlock. '
         'Non-trivial = the trace contains a rare order (thread ran before create returned, main dropped its last reference before the thread started, unref overlapping the running thread); distinct = distinct executed trace hash.',
    assumptions=_dsched_assume + ['handle lifetime (freed exactly once) is observed by ASan-free builds only through the model here; C20 accounts the blocks'],
    corpus_harness='dsched_sim_posix', design_ref='4/C05, 3.1'))
ENGINES.append(dict(name='dsched', path='engines/dsched', serves_properties=['C01', 'C02', 'C03', 'C04', 'C05', 'C20'],
                    kind_free_text='deterministic cooperative scheduler over modelled pthreads: generated programs + generated schedule vectors (stateful PBT over interleavings), fork per case, bounded-exhaustive preemption enumeration'))
for _p, _t in (('C01', 'mutual exclusion, lost-update and trylock oracles'), ('C02', 'reader/writer exclusion, trylock and deadlock-freedom oracles'), ('C03', 'atomic release-and-wait, wake-up and exchange-completeness oracles'),
               ('C04', 'exact linearizability search'), ('C05', 'join/exit-code, TLS notifier and ownership-model oracles')):
    LEVEL_TEXT[_p] = 'Generated multi-threaded programs executed under a deterministic scheduler whose schedule vector is generated data (random and bounded-exhaustive over preemptions); ' + _t + '. Explores interleavings the OS scheduler would never produce; says nothing beyond the programs/schedules explored.'
    LEVEL_NOTE[_p] = 'Trusted: the scheduler and its pthread model (engines/dsched/vsched.h), the harness oracles. Sequentially consistent execution only.'
    TECHNIQUE[_p] = 'property-based testing over generated programs and generated schedules (deterministic scheduler, rapidcheck) + bounded-exhaustive preemption enumeration'

# ---- real-thread sub-checks (TSan happens-before oracle on c11/sim, outcome oracles on plain builds) ----
for _cfg in ('gcc-tsan-c11', 'gcc-tsan-sim', 'gcc-plain-c11', 'gcc-plain-sync', 'gcc-plain-sim'):
    harness('rt_' + _cfg.replace('gcc-', '').replace('-', '_'), 'engines/rthreads/rthreads.cpp', _cfg, libs='-lrapidcheck -lcrypto')
def _rtsubs(kinds, qcases, tcases):
    subs = []
    for cfg, tsan in (('tsan_c11', 1), ('tsan_sim', 1), ('plain_c11', 0), ('plain_sync', 0), ('plain_sim', 0)):
        subs.append(Sub('rt_' + cfg, 'rt_' + cfg, shards=(1, 2), cases=(qcases, tcases), maxsize=(100, 100), kind='stress',
                        env={'VERIF_KINDS': kinds + (',sbset,sbget' if (not tsan and 'sb' in kinds.split(',')) else ''), 'VERIF_CONFIG_TSAN': tsan}, timeout=(900, 3600)))
    return subs
PROPS['C01'].subs += _rtsubs('lockrec,lockrec,trylockrec', 60, 150)
PROPS['C01'].subs += [Sub('rt_trypoll_' + c, 'rt_' + c, shards=(1, 1), cases=(8, 40), maxsize=(100, 100), kind='stress', env={'VERIF_KINDS': 'trypoll', 'VERIF_CONFIG_TSAN': 0}, timeout=(900, 3600)) for c in ('plain_c11', 'plain_sim')]
PROPS['C01'].subs += [Sub('rt_longhold_' + c, 'rt_' + c, shards=(1, 1), cases=(3, 6), maxsize=(100, 100), kind='stress', env={'VERIF_KINDS': 'longhold', 'VERIF_CONFIG_TSAN': 0, 'VERIF_HOLD_MS': (3200, 9000)}, timeout=(900, 3600)) for c in ('plain_c11', 'plain_sync')]
PROPS['C04'].subs += _rtsubs('ticket,ticket,countdown,zerorace,zerorace,casloop,mix,mp,sb,setinc,reinit_ticket,reinit_mix', 36, 110)
PROPS['C01'].rule += ' Real-thread sub-checks: generated (threads 2-8, rounds, lock kind, noise seed) lock programs on real threads, under ThreadSanitizer for the c11 and sim models (any race report on the protected record is a violation - this is the visibility clause) and with outcome oracles only on plain -O2 builds of c11, sync, sim. Polling sub-check (plain -O2 builds): a bare `while (!trylock (l)) ++n;` loop and two trylocks in a row, compiled against the headers of the tree under test (function attributes in the headers decide what the compiler of the calling code may merge or hoist): the loop ends after the release by the holder and never before. Long-hold sub-check (c11 and sync spinlock builds): a holder keeps the mutex / spinlock for 3.5 s (thorough 9 s) while a second thread sits in the blocking lock call; the call may return only after the release (hundreds of millions of failed acquisition attempts in one call).'
PROPS['C04'].rule += ' Real-thread sub-checks: ticket uniqueness (add), countdown (dec_and_test TRUE exactly once), zero-race rounds (all threads decrement a word set to the thread count, tightly synchronised, exactly one TRUE per round), CAS increment loop, or/xor/and/inc mixes, message-passing and store-buffering litmus with iteration counts; TSan on c11/sim, outcome oracles on plain c11/sync/sim.'
PROPS['C01'].assumptions.append('ThreadSanitizer is not applied to the sync model (plain volatile store + full fence is outside its happens-before vocabulary and reports on the unchanged tree); on x86-64 a missing release fence in sync has no observable outcome')
PROPS['C04'].assumptions.append('litmus outcomes "never observed" are evidence, not proof; TSan not applied to the sync model')
ENGINES.append(dict(name='rthreads', path='engines/rthreads', serves_properties=['C01', 'C04'], kind_free_text='generated stress programs on real threads; ThreadSanitizer (gcc) as happens-before oracle, closed-form outcome oracles'))

# ---- C20 ---------------------------------------------------------------------------------------
harness('census', 'engines/fault/census.cpp', 'gcc-asan', libs='-lrapidcheck -lcrypto')
reg(Prop('C20', 'exploration', [
    Sub('rand', 'census', shards=(12, 16), cases=(250, 3000), maxsize=(100, 100), env={'VERIF_SUB': 'rand'}, timeout=(900, 3600)),
    Sub('cycles', 'census', shards=(4, 8), cases=(1, 1), env={'VERIF_SUB': 'cycles'}, timeout=(900, 3600)),
    Sub('lsan', 'census', shards=(8, 16), cases=(250, 2500), maxsize=(100, 100), env={'VERIF_SUB': 'rand', 'VERIF_LSAN': 1, 'ASAN_OPTIONS': 'detect_leaks=1:leak_check_at_exit=0:abort_on_error=0:allocator_may_return_null=1:handle_abort=0:detect_stack_use_after_return=0:malloc_context_size=6'}, timeout=(900, 3600)),
    Sub('fdledger_sm', 'netx', shards=(8, 8), cases=(600, 6000), maxsize=(60, 100), env={'VERIF_SUB': 'rand', 'VERIF_NETX_GEN': 'C10', 'VERIF_LEDGER_ONLY': 1}, timeout=(900, 3600)),
    Sub('fdledger_io', 'netx', shards=(4, 8), cases=(40, 400), maxsize=(60, 100), env={'VERIF_SUB': 'rand', 'VERIF_NETX_GEN': 'C09', 'VERIF_LEDGER_ONLY': 1}, timeout=(900, 3600)),
], rule='lifecycle histories: sequences of up to ~14 self-contained episodes over 17 object kinds (trees, list+hash table, INI incl. missing file, hashes, errors, directory iterator incl. missing path, TCP pairs incl. refused connect / timed-out accept / timed-out receive / I/O after close, '
        'UDP incl. receive_from and timed-out receive, socket addresses incl. rejected strings, semaphores with 1-3 handles and owner/non-owner free orders, shm with second handles of equal/smaller/larger size argument and read-only mode, shm buffers incl. failing open on a too-small segment, '
        'joinable/detached threads with TLS keys and values, foreign threads using p_uthread_current, lock objects, library loader incl. missing path and non-library file, libsys shutdown+init), each freeing everything it obtained. '
        'cycles sub-run: 120 (thorough 600) identical create/free cycles per kind x 6 variants. Oracle: after every episode library allocations (tracking allocator), descriptor count and bytes of /dev/shm-backed mappings equal the values before the history; at the end none of the history\'s IPC names exists (names computed independently with SHA-1). '
        'LeakSanitizer sub-run: the same histories with LeakSanitizer switched on and asked after every history for unreachable blocks - memory the library obtained from libc behind the allocator table (getaddrinfo results, stdio buffers) and dropped. '
        'Descriptor ledger sub-runs (socket state-machine sequences and faulted transfers of the C10 / C09 generators, libc entry points of the library wrapped): every descriptor the library obtains from socket / accept / shm_open is closed by the library exactly once - a close of a descriptor it does not hold, or a descriptor still open after every object was freed, is a violation. '
        'Non-trivial = history with >= 1 failing call, >= 1 IPC object opened through handles with different size arguments, and >= 3 module kinds; distinct = distinct history text.',
    assumptions=['glibc-internal allocations and the loader\'s own mappings are invisible to the census; TLS slot consumption is not part of it (documented: the native key is kept)',
                 'detached threads are awaited (bounded) before the census', 'the exactly-once ledger covers socket and shm descriptors (socket / accept / shm_open -> close); descriptors of other modules (directory streams, INI files via stdio) are covered by the descriptor count only'],
    corpus_harness='census', design_ref='4/C20'))
ENGINES[-2]['serves_properties'].append('C20') if ENGINES[-2]['name'] == 'fault' else None
for _e in ENGINES:
    if _e['name'] == 'fault' and 'C20' not in _e['serves_properties']: _e['serves_properties'].append('C20')
LEVEL_TEXT['C20'] = 'Generated create/use/free histories across all modules with a resource census (allocations, descriptors, shared mappings, IPC names) after every episode; plus long identical-cycle runs per object kind.'
LEVEL_NOTE['C20'] = 'Trusted: tracking allocator via p_mem_set_vtable, /proc/self/fd and /proc/self/maps census, independent SHA-1 computation of IPC file names.'
TECHNIQUE['C20'] = 'property-based testing (rapidcheck) of lifecycle histories with a resource-census invariant + repeated-cycle amplification'

# ---- C08 (in-process layer; the multi-process / concurrent layers are added by the ipcx engine) ------
harness('shmbuf', 'engines/seq/shmbuf.cpp', 'gcc-asan')
reg(Prop('C08', 'exploration', [
    Sub('exh', 'shmbuf', shards=(2, 8), cases=(1, 1), env={'VERIF_SUB': 'exh'}),
    Sub('rand', 'shmbuf', shards=(8, 16), cases=(4000, 40000), maxsize=(80, 200), env={'VERIF_SUB': 'rand'}),
], rule='sequences of write/read/clear/space queries through up to 5 handles of one name (opened with equal, zero, smaller and larger size arguments, followers closed and re-opened), capacities 1,2,3,7,8,64,1024,4079,8175 (segment ends exactly at a page boundary) and random <= 5000; '
        'lengths generated relative to the model state (free-1, free, free+1, capacity, capacity+1, used-1, used, used+1, 0). Exhaustive sub-run: every op sequence of length <= 4 (thorough 6) over capacities 1..3 with lengths 1..S+1. '
        'Oracle: bounded FIFO byte queue shared by all handles: return values, exact bytes in order, used + free == capacity through every handle after every operation; caller buffers are exact-size heap blocks (ASan). '
        'Non-trivial = sequence with >= 1 write that wrapped around the ring end and >= 1 operation at a boundary (write of exactly free, write of free+1 refused, read at empty, read of more than used); distinct = distinct case text.',
    assumptions=['zero-length read/write: the API reports an invalid-argument failure; accepted as "nothing happens" (0 or -1) - the property text says 0-length operations are in scope but does not fix their return value',
                 'overruns of the segment inside its last page are invisible to ASan; capacities that end the segment exactly at a page boundary turn them into faults'],
    corpus_harness='shmbuf', design_ref='4/C08'))
ENGINES[0]['serves_properties'].append('C08')
LEVEL_TEXT['C08'] = 'Generated operation sequences through several handles compared step by step with a bounded FIFO byte queue; exhaustive for tiny capacities; multi-process and concurrent producer/consumer histories through the ipcx engine.'
LEVEL_NOTE['C08'] = 'Trusted: std::deque reference; ASan. One process for the sequential layer.'
TECHNIQUE['C08'] = 'property-based testing (rapidcheck, model-based vs FIFO queue) + bounded-exhaustive enumeration + multi-process histories'

# ---- ipcx: multi-process engine (C06, C07, C08 multi-process layer) ------------------------------------
harness('ipcx', 'engines/ipcx/ipcx.cpp', 'gcc-asan-wrapipc', libs='-lrapidcheck -lcrypto')
_ipc_assume = ["IPC names are private to the run (prefix with the coordinator pid); the expected /dev/shm file names are computed independently (SHA-1) and the semaphore counter is observed with sem_getvalue on the coordinator's own handle of that generation",
               'blocking is decided one-sidedly: "must block" = no reply within the grace period (150 ms quick / 400 ms thorough); a worker that does not answer within 10 s makes the case inconclusive',
               'crash points are before/after each IPC libc call made by the library objects (sem_open, sem_close, sem_unlink, sem_wait, sem_post, shm_open, shm_unlink, ftruncate, mmap, munmap, close), interposed with objcopy --redefine-syms']
reg(Prop('C06', 'exploration', [
    Sub('hist', 'ipcx', shards=(8, 16), cases=(400, 3000), maxsize=(60, 100), env={'VERIF_SUB': 'hist'}, timeout=(900, 3600)),
    Sub('kills', 'ipcx', shards=(4, 8), cases=(250, 2000), maxsize=(60, 100), env={'VERIF_SUB': 'kills'}, timeout=(900, 3600)),
    Sub('enum', 'ipcx', shards=(4, 4), cases=(1, 1), env={'VERIF_SUB': 'enum'}, timeout=(900, 3600)),
], rule='histories of new(OPEN|CREATE, init 0,1,2,3,7)/acquire/release/take_ownership/free over 3 names and handle slots spread over 3-4 worker processes, interpreted model-driven (acquire on an empty counter becomes "must block, then complete after a release through another handle"), '
        'k-exclusion phases (W processes x rounds on a counter v < W), SIGKILL of a worker at a generated point of new/acquire/free followed by the documented clean-up from another process; enum sub-run: every kill point of new (OPEN|CREATE x absent|existing name), free (owner|non-owner) and acquire. '
        'Oracle: reference model name -> generation -> counter, handle -> (generation, owner); counters compared after every step; name presence in /dev/shm per owner/non-owner free; clean-up open/take_ownership/free/create succeeds with the exact new value. '
        'Non-trivial = >= 2 handles of one generation in >= 2 processes and a new on an existing name and an operation through a handle other than the one that last changed the counter, or a kill; distinct = distinct history text.',
    assumptions=_ipc_assume, corpus_harness='ipcx', design_ref='4/C06, 3.2'))
reg(Prop('C07', 'exploration', [
    Sub('hist', 'ipcx', shards=(8, 16), cases=(400, 3000), maxsize=(60, 100), env={'VERIF_SUB': 'hist'}, timeout=(900, 3600)),
    Sub('kills', 'ipcx', shards=(4, 8), cases=(250, 2000), maxsize=(60, 100), env={'VERIF_SUB': 'kills'}, timeout=(900, 3600)),
    Sub('enum', 'ipcx', shards=(4, 4), cases=(1, 1), env={'VERIF_SUB': 'enum'}, timeout=(900, 3600)),
], rule='histories of new(size from 1,7,100,4095,4096,4097,8192,65537; read-only followers)/store/load (offsets 0, size-1, page edge)/lock/unlock/take_ownership/free over 2 names and 3 processes, lock phases (N processes x M rounds of lock; non-atomic counter++ in the segment; unlock), '
        'first-use races (a second process runs its whole p_shm_new while the creator is parked at a generated point of its own), SIGKILL inside new/lock with documented clean-up; enum sub-run: every kill point of p_shm_new (absent|existing) and every pause point of the race x 3 sizes. '
        'Oracle: byte-array model per generation read back through every handle; creator size exact, equal size arguments report equal sizes, never above the segment; every byte below the reported size accessible; lock must block across processes and the in-segment counter must not lose updates; '
        'owner free removes segment and lock names; clean-up after a kill yields a fresh zeroed segment of the new size with a working lock. Non-trivial = a byte stored by one process loaded by another, a race with both creators alive, or a kill; distinct = distinct history text.',
    assumptions=_ipc_assume, corpus_harness='ipcx', design_ref='4/C07, 3.2'))
PROPS['C08'].subs += [Sub('mp', 'ipcx', shards=(6, 12), cases=(400, 3000), maxsize=(60, 100), env={'VERIF_SUB': 'hist'}, timeout=(900, 3600))]
PROPS['C08'].subs += [Sub('pc', 'ipcx', shards=(6, 6), cases=(1, 1), env={'VERIF_SUB': 'enum'}, timeout=(900, 3600))]
PROPS['C08'].rule += ' Multi-process layer: the same operations spread over handles in 3 worker processes against one FIFO model in the coordinator, plus concurrent producer/consumer phases moving sequence-numbered frames (whole frames, per-producer order); the pc sub-run always runs two producer processes against one consumer on three capacities, 6 repetitions x 2 phases.'
ENGINES.append(dict(name='ipcx', path='engines/ipcx', serves_properties=['C06', 'C07', 'C08'], kind_free_text='multi-process step executor: generated histories, reference model in the coordinator, kill/pause points on interposed IPC libc calls'))
LEVEL_TEXT['C06'] = 'Model-based multi-process histories with counter observation after every step, blocking probes, k-exclusion phases and SIGKILL at every IPC call boundary (enumerated) followed by the documented clean-up.'
LEVEL_TEXT['C07'] = 'Model-based multi-process histories (byte model, sizes, cross-process lock), enumerated first-use race positions and kill points with the documented clean-up.'
LEVEL_NOTE['C06'] = 'Trusted: coordinator model, sem_getvalue on an independently opened handle, grace-period logic (one-sided).'
LEVEL_NOTE['C07'] = 'Trusted: coordinator model, independent name computation, grace-period logic (one-sided). Two known findings (first-use race window, unsized segment after a kill) are excluded by construction when their probes still fail.'
TECHNIQUE['C06'] = 'stateful property-based testing across processes (rapidcheck histories, reference model) + fault injection (kill-point enumeration)'
TECHNIQUE['C07'] = 'stateful property-based testing across processes + enumerated race positions (pause points) and kill points'

# ---- netx: socket harness with libc fault wrappers (C09, C10, C19) -----------------------------------------
harness('netx', 'engines/netx/netx.cpp', 'gcc-asan-wrapnet', libs='-lrapidcheck -lcrypto')
_net_assume = ['faults are injected by link-time wrappers around the libc calls made by psocket.o (send, recv, sendto, recvfrom, poll, connect, accept, ...); injected EINTR/EAGAIN are side-effect free, SHORT(n) performs the real call with a reduced length',
               'the peer endpoint is a raw BSD socket driven by a harness thread and is not wrapped; loopback only, ephemeral ports',
               'UDP loss or lateness is tolerated and counted, never a violation; only lower bounds on elapsed time are asserted']
reg(Prop('C09', 'fault_enumeration', [
    Sub('rand', 'netx', shards=(12, 16), cases=(250, 3000), maxsize=(60, 100), env={'VERIF_SUB': 'rand'}, timeout=(900, 3600)),
    Sub('enum', 'netx', shards=(4, 8), cases=(1, 1), env={'VERIF_SUB': 'enum'}, timeout=(900, 3600)),
], rule='transfer cases: IPv4/IPv6 loopback, TCP (library as client or as accepting server) and UDP, blocking and non-blocking, optional small send buffer, peer behaviour fast/slow/burst, sequences of send(len)/receive(buflen)/peer-sends with sizes from 1, 2, 1023, 1024, 4096, 65507, 70000, 1 MiB and random, '
        '"peer goes away then keep writing", plus a generated fault plan (call, k-th invocation, EINTR|EAGAIN|SHORT(n), burst 1-5) over send, recv, sendto, recvfrom, poll, connect, accept. enum sub-run: every single-fault plan (call x k<=6 x fault) on three base transfers. '
        'Oracle: position-dependent stream pattern: every successful receive returns exactly the next bytes of the peer stream; after shutdown the peer received exactly the bytes reported as sent; datagrams equal a sent datagram cut to the buffer, sender address/port as bound; '
        'a blocking call never reports would-block/EINTR/EAGAIN; non-blocking calls fail only with would-block; writing to a closed peer ends in an error, never SIGPIPE. '
        'Non-trivial = a short transfer or an injected fault consumed inside a blocking call, and >= 2 receives; distinct = distinct case text.',
    assumptions=_net_assume, corpus_harness='netx', design_ref='4/C09, 3.3'))
reg(Prop('C10', 'exploration', [
    Sub('rand', 'netx', shards=(16, 16), cases=(1500, 12000), maxsize=(60, 100), env={'VERIF_SUB': 'rand'}, timeout=(900, 3600)),
], rule='state-machine sequences over 3 library sockets (stream/datagram, IPv4/IPv6) and raw peers created on demand: new, bind, listen, connect (listening port | closed port | non-blocking), accept (with / without a pending peer), send, receive (with / without data), shutdown, close, close again, every I/O call after close, '
        'setters blocking / timeout {-5,0,1,3,20,50} / keepalive / backlog before and after listen, getters after every command. Oracle: reference state machine for the getters; after close every I/O call fails with not-available and the wrappers see zero system calls; second close TRUE with zero calls; '
        'blocked calls that cannot proceed fail with timed-out not before T (monotonic clock, lower bound only); non-blocking ones with would-block (connect: in-progress) without calling poll; FD_CLOEXEC on new and accepted descriptors. '
        'Non-trivial = sequence with an I/O call after close and a timed or non-blocking call that could not proceed; distinct = distinct case text.',
    assumptions=_net_assume + ['keepalive setter after close is not asserted (unspecified)'], corpus_harness='netx', design_ref='4/C10'))
reg(Prop('C19', 'fault_enumeration', [
    Sub('enum', 'netx', shards=(8, 8), cases=(1, 1), env={'VERIF_SUB': 'enum'}, timeout=(900, 3600)),
    Sub('rand', 'netx', shards=(8, 16), cases=(150, 1500), maxsize=(60, 100), env={'VERIF_SUB': 'rand'}, timeout=(900, 3600)),
], rule='call scenarios per blocking call site: p_uthread_sleep(1|20|60 ms); semaphore acquire / shm lock released by a helper thread after a delay; p_semaphore_new / p_shm_new (create and open); blocking TCP transfer (connect, accept, receive, send into a slow reader); accept and receive waiting for a late peer - '
        'combined with (a) a signal storm (POSIX timer aimed at the calling thread, handler without SA_RESTART, period 200 us - 20 ms) and (b) an EINTR plan on the libc call the scenario blocks in. enum sub-run: EINTR at invocation k<=5 (burst 1|3) of every blocking call site, and every site x 5 storm periods. '
        'Oracle: outcome equals the signal-free outcome: sleep returns 0 only after >= the requested time; acquire/lock return TRUE, not before the unit was released, exactly one unit consumed; objects created and usable; socket data intact (C09 stream oracle); never an interrupted-call error. '
        'Non-trivial = a signal was delivered while the thread was inside the blocking system call, or a planned EINTR was consumed; distinct = distinct case text.',
    assumptions=_net_assume + ['wrapper EINTRs follow the POSIX convention of each call (clock_nanosleep reports through its return value, errno untouched)', 'signal storms stop after 4000 signals so that they cannot starve the target thread'],
    corpus_harness='netx', design_ref='4/C19, 3.3'))
ENGINES.append(dict(name='netx', path='engines/netx', serves_properties=['C09', 'C10', 'C19', 'C20'], kind_free_text='socket harness with link-time fault wrappers (EINTR/EAGAIN/short transfers as generated plans), raw peer thread, signal storms'))
LEVEL_TEXT['C09'] = 'Generated transfers with generated fault plans checked against a byte-stream / datagram oracle; all single-fault plans on base transfers are enumerated.'
LEVEL_TEXT['C10'] = 'Model-based command sequences on sockets with getter model, closed-state and timeout/non-blocking oracles, system-call counting through wrappers.'
LEVEL_TEXT['C19'] = 'Every blocking call site is run under enumerated single-EINTR plans and under real signal storms; the outcome must equal the signal-free outcome.'
for _p in ('C09', 'C10', 'C19'):
    LEVEL_NOTE[_p] = 'Trusted: fault wrappers (engines/netx/netx.cpp), raw-socket peer, CLOCK_MONOTONIC lower bounds. Loopback only.'
TECHNIQUE['C09'] = 'property-based testing with fault injection (generated EINTR/EAGAIN/short-transfer plans) against a stream/datagram oracle; single-fault enumeration'
TECHNIQUE['C10'] = 'stateful property-based testing (rapidcheck) against a reference state machine, with system-call counting'
TECHNIQUE['C19'] = 'fault injection enumeration (EINTR at every k-th invocation per call site) + generated signal storms, metamorphic oracle (same outcome as without signals)'

# ---- libFuzzer targets (coverage-guided, structure-aware decode into the same case structures) -----------
_FUZZLINK = dict(config='clang-fuzz', cxxflags='-DVERIF_FUZZ', linkflags='-fsanitize=fuzzer')
harness('tree_fuzz', 'engines/seq/tree.cpp', libs='-lrapidcheck', **_FUZZLINK)
harness('htlist_fuzz', 'engines/seq/htlist.cpp', libs='-lrapidcheck', **_FUZZLINK)
harness('ini_fuzz', 'engines/seq/ini.cpp', libs='-lrapidcheck', **_FUZZLINK)
harness('sockaddr_fuzz', 'engines/seq/sockaddr.cpp', libs='-lrapidcheck', **_FUZZLINK)
harness('hash_fuzz', 'engines/seq/hash.cpp', libs='-lrapidcheck -lcrypto -lnettle', **_FUZZLINK)
for _pid, _h, _ml in (('C12', 'tree_fuzz', 1024), ('C13', 'tree_fuzz', 1024), ('C14', 'tree_fuzz', 1024), ('C15', 'htlist_fuzz', 2048), ('C16', 'ini_fuzz', 6000), ('C17', 'sockaddr_fuzz', 128), ('C11', 'hash_fuzz', 512)):
    PROPS[_pid].subs.append(Sub('fuzz', _h, shards=(4, 16), cases=(1, 1), kind='fuzz', fuzz=dict(secs=(12, 300), max_len=_ml), timeout=(300, 1200)))
    PROPS[_pid].rule += ' libFuzzer sub-run: coverage-guided campaign (clang, ASan+UBSan, sync atomics) whose bytes are decoded into the same case structure and run through the same oracle; 4 x 12 s quick, 16 x 300 s thorough; fresh corpus' + (' + committed seed inputs' if _pid == 'C16' else '') + '.'
    TECHNIQUE[_pid] += ' + coverage-guided fuzzing (libFuzzer, structure-aware decode, same oracle)'
ENGINES.append(dict(name='fuzz', path='engines/seq (built with -DVERIF_FUZZ)', serves_properties=['C11', 'C12', 'C13', 'C14', 'C15', 'C16', 'C17'], kind_free_text='libFuzzer targets sharing case structure and oracle with the rapidcheck harnesses'))

# ---- real-thread sub-checks for C02 / C03 / C05 (TSan happens-before oracle + outcome oracles) ---------------
harness('rt_tsan_general', 'engines/rthreads/rthreads.cpp', 'gcc-tsan-general', libs='-lrapidcheck -lcrypto')
harness('rt_asan_c11', 'engines/rthreads/rthreads.cpp', 'gcc-asan', libs='-lrapidcheck -lcrypto')
harness('rt_asan_general', 'engines/rthreads/rthreads.cpp', 'gcc-asan-general', libs='-lrapidcheck -lcrypto')
def _rt2(kinds, cfgs, q, t):
    return [Sub('rt_' + c, 'rt_' + c, shards=(1, 2), cases=(q, t), maxsize=(100, 100), kind='stress', env={'VERIF_KINDS': kinds, 'VERIF_CONFIG_TSAN': 1 if 'tsan' in c or 'asan' in c else 0}, timeout=(900, 3600)) for c in cfgs]
PROPS['C02'].subs += _rt2('rwrec', ['tsan_c11', 'tsan_general', 'plain_c11'], 25, 150)
PROPS['C02'].subs += [Sub('rt_many_' + c, 'rt_' + c, shards=(1, 1), cases=(60, 400), maxsize=(100, 100), kind='stress', env={'VERIF_KINDS': 'rwmany,rwmany,rwmany,rwwait', 'VERIF_CONFIG_TSAN': 0}, timeout=(900, 3600)) for c in ('asan_c11', 'asan_general')]
PROPS['C03'].subs += _rt2('bbuf', ['tsan_c11', 'plain_c11'], 12, 200)
PROPS['C03'].subs += [Sub('rt_burst_' + c, 'rt_' + c, shards=(1, 1), cases=(2, 6), maxsize=(100, 100), kind='stress', env={'VERIF_KINDS': 'sigburst', 'VERIF_CONFIG_TSAN': 0}, timeout=(900, 3600)) for c in ('plain_c11',)]
PROPS['C05'].subs += _rt2('thr', ['tsan_c11', 'asan_c11', 'plain_c11'], 20, 150)
PROPS['C06'].subs += [Sub('rt_open_' + c, 'rt_' + c, shards=(1, 2), cases=(12, 80), maxsize=(100, 100), kind='stress', env={'VERIF_KINDS': 'semopen', 'VERIF_CONFIG_TSAN': 1 if 'tsan' in c else 0}, timeout=(900, 3600)) for c in ('tsan_c11', 'plain_c11')]
PROPS['C02'].rule += ' Many-holds sub-check (native and general model, ASan): 1 .. 16385 simultaneous read holds (powers of two and neighbours; lock and trylock alternating): a writer trylock is refused while any hold is outstanding and admitted when all are released. Real-thread sub-checks: generated (threads, rounds, noise) reader/writer programs on real threads under ThreadSanitizer for the native and the general implementation, plus a plain -O2 run: record race or lost update = violation.'
PROPS['C03'].rule += ' Real-thread sub-checks: generated bounded-buffer programs (capacity 1-3, signal/broadcast by seed) on real threads under ThreadSanitizer and plain -O2: items conserved, no race report.'
PROPS['C05'].rule += ' Real-thread sub-checks: rounds of create/ref/unref/join with exit codes, plain result stores read after join and TLS set/replace with a counting notifier, under ThreadSanitizer, ASan and plain -O2.'
for _e in ENGINES:
    if _e['name'] == 'rthreads': _e['serves_properties'] += ['C02', 'C03', 'C05']

# ---- additions of the seeded-change rounds (see DESIGN 8.4), appended to the stated rules -----------------------------------------------
_ADD = {
 'C01': ' Spinlock kind S: a redundant unlock of the free spinlock before the threads start (documented as safe), then trylock must succeed (c11/sync).',
 'C03': ' Gate programs: 1-3 phases pairing the same condition variable with a second mutex; try=1 programs whose wakers ask with p_mutex_trylock first (exact oracle: FALSE while the modelled native mutex is free is a violation); token passing over ONE condition variable (pp); gates opened by broadcast+signal / signal+broadcast.',
 'C04': ' Operands beyond 32 bits for the pointer-width operations; message-passing and store-buffering litmus in an int and a pointer-width variant.',
 'C05': ' Keys whose reference is released while threads hold values (gate program / barrier rounds); thread functions that return a non-NULL pointer (join yields 0); a case whose threads all sleep in futex waits with nobody holding the scheduler baton is a violation (all-threads-parked).',
 'C06': ' Also: initial values 32767, 32768, 65536, INT_MAX; names padded to 30-400 characters that differ only in their last character; handled signals delivered to a process that must stay blocked in acquire; race step: an OPEN-mode p_semaphore_new parked at each of its sem_open calls while the owner frees the name (NULL, the old counter, or a fresh counter carrying the given value); a worker that burns CPU without answering = the call does not return.',
 'C07': ' Also: padded names; one creation in eight through a READONLY handle; handled signals delivered to a process that must stay blocked in p_shm_lock; injected failure of one system call (sem_open, shm_open, ftruncate, mmap) inside p_shm_new: an absent name stays absent, an existing segment keeps its names.',
 'C08': ' Also: padded names; handles opened with larger size arguments.',
 'C09': ' Also: datagrams of length 0; a datagram queued on an almost empty loopback socket cannot be lost (skipping it or timing out with it queued is a violation); step T: stalled receiver + 60 ms send timeout + large buffers until a call times out (bytes at the peer = bytes reported as sent); after the peer has gone both p_socket_send and p_socket_send_to must fail with an error (the harness handles SIGPIPE).',
 'C10': ' Also: would-block faults on accept/recv/send after poll announced readiness, delivered to blocking sockets only; close() interrupted by a signal (descriptor released all the same); shutdown with every flag combination on a closed socket fails with not-available; listen on a datagram socket fails and leaves the backlog setter working; accepted sockets are switched to non-blocking and must return would-block at once (watchdog: thread parked in poll/recv/accept/connect for 5 s). Descriptor ledger: every descriptor obtained from socket/accept is closed exactly once.',
 'C11': ' The 2^32-byte cases continue with read / reset / "abc" / read / reset / read; a second large case reaches 2^32 bytes through two updates of 2^31+3 bytes.',
 'C12': ' Key 0 may be the NULL pointer (notif bit 3); every stopped traversal is followed by a full scan.',
 'C14': ' Key 0 may be the NULL pointer: the NULL key is accounted in the destroy log; every notifier configuration (none, key only, value only, both).',
 'C16': ' Names, values and comments contain bytes >= 0x80 (including the bytes the BOMs are made of; a line that would start with a complete BOM gets a leading blank); UTF-8 / UTF-16 BE / UTF-16 LE / UTF-32 BE byte order marks at the start of the file.',
 'C19': ' The sleep lower bound is exact (elapsed time is measured around the call); the ipc_new scenario also opens the now existing segment under the same interruptions and requires the uninterrupted outcome (size, bytes, names survive a non-owner free).',
}
_ADD6 = {
 'C04': ' Kinds reinit_*: the same programs in a second lifetime of the library (p_libsys_shutdown + p_libsys_init first). Set-versus-increment litmus (real threads, int and pointer width): one thread sets the word to fresh bases and reads it back while another increments it and publishes its count; base <= value <= base + increments that can lie between (exact, no timing).',
 'C03': ' Signal-burst sub-check (real threads): the consumer sleeps in wait, the producer issues B signals (or broadcasts) under one lock hold, B in {1, 2, 255, 256, 257, 1000, 65535, 65536, 65537, 131072, 196608}; verdict by state: the consumer still sleeps in a futex wait (two looks one second apart) with its predicate true.',
 'C02': ' Reader-behind-waiting-writer sub-check (real threads): reader A holds, writer W sleeps inside writer_lock, reader B calls reader_lock - verdict by state: B sleeps in a futex wait (two looks one second apart) while only A holds the lock.',
 'C01': ' Long-hold litmus: every case holds the spinlock (until the waiter burnt the hold time in CPU) and then the mutex (whole hold time on the wall clock, the waiter asleep in its lock call).',
 'C05': ' Every real-thread round also runs a thread not started by plibsys that calls p_uthread_current twice (same handle), with an explicit reference kept across its exit / dropped before it / none (sanitizers decide a handle released early).',
 'C06': ' The race step alternates OPEN-mode and CREATE-mode opens parked at pause points 1..6 while the owner frees the name: a CREATE-mode open succeeds at every point and carries the given value while its name exists (enumerated). Real-thread sub-check (plain and ThreadSanitizer): 2-8 threads of one process, released together, each OPEN the name, release one unit and free the handle R times while a second name is opened and freed: every open succeeds and the platform counter behind the name holds exactly T*R units (no waiting involved).',
 'C08': ' Every read buffer carries a canary behind the reported count: bytes beyond min(len, used) are not the read\'s to write.',
 'C09': ' Every other datagram read goes through p_socket_receive; a reported count above the buffer length is a violation; the SHORT fault does not apply to datagram sockets.',
 'C12': ' Values of keys k % 3 == 1 may be NULL pointers (notif bit 4, trees without value notifier); op F inserts with every library allocation failing (a new key is not stored, an equal key is replaced).',
 'C13': ' Op F: an insert during which every library allocation fails; balance is checked after it and after every later operation.',
 'C14': ' Op F: an insert during which every library allocation fails destroys nothing (new key) or exactly the replaced pair.',
 'C18': ' A scenario child that burns 10 s of its own CPU time (ITIMER_VIRTUAL) is inside a library call that does not return: verdict no-return. Scenarios with several windows are also run with the failure confined to ONE window (every window x every k x both modes), so that the state a later window starts from is the one a fault-free prefix leaves; names of pre-existing IPC objects must survive a failed second open.',
 'C19': ' The ipc_new scenario also replaces, in CREATE mode and under the same interruptions, a stale semaphore name made with the platform call (the name must then carry the given value); EINTR is planned at invocations 1..9 of sem_open / shm_open.',
}
PROPS['C12'].subs += [Sub('big', 'tree', shards=(8, 12), cases=(1, 1), env={'VERIF_SUB': 'big', 'VERIF_CPU_BUDGET': 900}, timeout=(900, 3600))]
_ADD6['C12'] += ' Large-tree sub-run: red-black and AVL trees of 65536 and 70001 pairs (thorough: 65535 .. 131079) grown and shrunk in four key patterns, count / full traversal / lookups compared with the model afterwards.'
PROPS['C20'].subs += [Sub('threads_sched_' + c, 'dsched_' + c, shards=(2, 4), cases=(1500, 15000), maxsize=(60, 100), env={'VERIF_SUB': 'rand'}, timeout=(900, 3600)) for c in ('c11_posix',)]
PROPS['C20'].subs += [Sub('threads_sched_exh_c11_posix', 'dsched_c11_posix', shards=(2, 4), cases=(1, 1), env={'VERIF_SUB': 'exh'}, timeout=(900, 3600))]
_ADD6['C20'] = ' Thread-program sub-runs (the generated thread programs and schedules of C05, deterministic scheduler): after every thread was joined or finished, every handle unreferenced and every key released, no library block may remain - under every explored interleaving of first key uses, exits and releases. Thread names of every length 1..44.'
for _k, _v in list(_ADD.items()) + list(_ADD6.items()):
    PROPS[_k].rule += _v
