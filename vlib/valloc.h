// valloc.h - tracking / failing allocator installed through the public p_mem_set_vtable.
// Live blocks are kept in a table so leak checks work without a sanitizer; blocks come from
// malloc so ASan still sees overruns and use-after-free.  Fault plan: fail request number
// `fail_at` (1-based, counted from arm()) once, or that one and every later request.
#pragma once
#include <cstdlib>
#include <cstdint>
#include <unordered_map>
#include <vector>
#include <string>
#include <execinfo.h>
#include <pthread.h>
extern "C" {
#include <plibsys.h>
}

namespace va {

struct Block { size_t size; uint64_t seq; void *bt[8]; int nbt; };

struct State {
  std::unordered_map<void *, Block> live;
  uint64_t seq = 0;          // all requests ever
  uint64_t window = 0;       // requests since arm()
  bool armed = false;
  uint64_t fail_at = 0;      // 0 = never
  bool fail_all_after = false;
  uint64_t failed = 0;       // how many requests were failed
  bool want_bt = false;
  uint64_t frees_of_unknown = 0;
  void *last_failed_bt[12];
  int last_failed_nbt = 0;
  bool in_hook = false;
};
inline State &st() { static State s; return s; }
inline pthread_mutex_t *mx() { static pthread_mutex_t m = PTHREAD_MUTEX_INITIALIZER; return &m; }
struct Lock { Lock() { pthread_mutex_lock(mx()); } ~Lock() { pthread_mutex_unlock(mx()); } };

inline bool should_fail() {
  State &s = st();
  if (!s.armed) return false;
  s.window++;
  if (!s.fail_at) return false;
  if (s.window == s.fail_at || (s.fail_all_after && s.window > s.fail_at)) {
    s.failed++;
    if (s.want_bt && s.failed == 1 && !s.in_hook) { s.in_hook = true; s.last_failed_nbt = backtrace(s.last_failed_bt, 12); s.in_hook = false; }
    return true;
  }
  return false;
}
inline void note_alloc(void *p, size_t n) {
  State &s = st();
  if (!p) return;
  Block b; b.size = n; b.seq = ++s.seq; b.nbt = 0;
  if (s.want_bt && !s.in_hook) { s.in_hook = true; b.nbt = backtrace(b.bt, 8); s.in_hook = false; }
  s.live[p] = b;
}
inline ppointer v_malloc(psize n) {
  Lock lk;
  if (should_fail()) return NULL;
  void *p = malloc(n);
  note_alloc(p, n);
  return p;
}
inline ppointer v_realloc(ppointer mem, psize n) {
  Lock lk;
  if (should_fail()) return NULL;
  State &s = st();
  void *p = realloc(mem, n);
  if (p) { s.live.erase(mem); note_alloc(p, n); }
  return p;
}
inline void v_free(ppointer mem) {
  if (!mem) return;
  Lock lk;
  State &s = st();
  auto it = s.live.find(mem);
  if (it == s.live.end()) s.frees_of_unknown++;
  else s.live.erase(it);
  free(mem);
}
inline void install() {
  PMemVTable t;
  t.f_malloc = v_malloc; t.f_realloc = v_realloc; t.f_free = v_free;
  p_mem_set_vtable(&t);
}
inline void arm(uint64_t fail_at = 0, bool all_after = false) {
  State &s = st();
  s.armed = true; s.window = 0; s.fail_at = fail_at; s.fail_all_after = all_after; s.failed = 0;
}
inline uint64_t disarm() { State &s = st(); s.armed = false; s.fail_at = 0; return s.window; }
inline size_t live_count() { Lock lk; return st().live.size(); }
inline std::vector<uint64_t> live_seqs() { std::vector<uint64_t> v; for (auto &kv : st().live) v.push_back(kv.second.seq); return v; }

} // namespace va
