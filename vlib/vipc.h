// vipc.h - expected /dev/shm file names of plibsys IPC objects, computed independently of the
// library (OpenSSL SHA-1): platform key = "/" + first 13 hex digits of SHA-1(name + suffix).
#pragma once
#include <openssl/sha.h>
#include <string>
#include <vector>
#include <sys/stat.h>
namespace vi {
inline std::string key13(const std::string &s) {
  unsigned char d[20];
  SHA1((const unsigned char *)s.data(), s.size(), d);
  static const char *hx = "0123456789abcdef";
  std::string h;
  for (int i = 0; i < 20; i++) { h += hx[d[i] >> 4]; h += hx[d[i] & 15]; }
  return h.substr(0, 13);
}
inline std::string sem_file(const std::string &name) { return "/dev/shm/sem." + key13(name + "_p_sem_object"); }
inline std::string shm_file(const std::string &name) { return "/dev/shm/" + key13(name + "_p_shm_object"); }
// the lock semaphore of a shm segment is a PSemaphore named by the segment's platform key ("/<13 hex>")
inline std::string shm_lock_file(const std::string &name) { return sem_file("/" + key13(name + "_p_shm_object")); }
inline bool exists(const std::string &path) { struct stat sb; return stat(path.c_str(), &sb) == 0; }
// every file any IPC object of this user-level name may leave behind
inline std::vector<std::string> files_of(const std::string &name) { return {sem_file(name), shm_file(name), shm_lock_file(name)}; }
inline std::vector<std::string> leftovers(const std::vector<std::string> &names) {
  std::vector<std::string> out;
  for (auto &n : names) for (auto &f : files_of(n)) if (exists(f)) out.push_back(f);
  return out;
}
inline void sweep(const std::vector<std::string> &names) { for (auto &n : names) for (auto &f : files_of(n)) unlink(f.c_str()); }
} // namespace vi
