// vlib.h - shared harness support: stats, fingerprints, samples, replay files,
// crash capture.  Header-only, C++17.  Used by every harness binary.
//
// Protocol with the Python driver (../check):
//   env VERIF_STATS       path of the per-shard stats JSON this process writes
//   env VERIF_REPLAY_DIR  directory for replay files written on failure
//   env VERIF_PROP        property id whose oracle set is active (C12, C13, ...)
//   env VERIF_TIER        quick | thorough
//   env VERIF_CASES       number of generated cases per rapidcheck property
//   env VERIF_MAXSIZE     rapidcheck max_size
//   env VERIF_SEED        integer seed (already shard-adjusted by the driver)
//   env VERIF_EXCLUDE     comma separated known-finding classes excluded by construction
//   argv: --replay FILE   run exactly that case through the oracle, bypassing generators
#pragma once
#include <cstdint>
#include <cstdio>
#include <cstdlib>
#include <cstring>
#include <string>
#include <vector>
#include <map>
#include <set>
#include <unordered_set>
#include <sstream>
#include <fstream>
#include <functional>
#include <algorithm>
#include <unistd.h>
#include <signal.h>
#include <sys/time.h>
#include <fcntl.h>

extern "C" void __sanitizer_set_death_callback(void (*)(void)) __attribute__((weak));

namespace vl {

inline uint64_t fnv1a(const void *p, size_t n, uint64_t h = 1469598103934665603ULL) {
  const unsigned char *c = (const unsigned char *)p;
  for (size_t i = 0; i < n; i++) { h ^= c[i]; h *= 1099511628211ULL; }
  return h;
}
inline uint64_t fnv1a(const std::string &s, uint64_t h = 1469598103934665603ULL) {
  return fnv1a(s.data(), s.size(), h);
}
inline uint64_t mix(uint64_t h, uint64_t v) { return fnv1a(&v, sizeof v, h); }

inline std::string env(const char *k, const char *def = "") {
  const char *v = getenv(k);
  return v ? v : def;
}
inline long envl(const char *k, long def) {
  const char *v = getenv(k);
  return (v && *v) ? atol(v) : def;
}

inline std::string jesc(const std::string &s) {
  std::string o;
  o.reserve(s.size() + 8);
  for (unsigned char c : s) {
    switch (c) {
    case '"': o += "\\\""; break;
    case '\\': o += "\\\\"; break;
    case '\n': o += "\\n"; break;
    case '\r': o += "\\r"; break;
    case '\t': o += "\\t"; break;
    default:
      if (c < 0x20 || c >= 0x7f) { char b[8]; snprintf(b, sizeof b, "\\u%04x", c); o += b; }
      else o += (char)c;
    }
  }
  return o;
}

struct Failure { std::string sub, verdict, klass, replay; };

struct Stats {
  uint64_t evaluations = 0;
  uint64_t nontrivial = 0;          // non-trivial executions (not distinct)
  std::unordered_set<uint64_t> fps; // fingerprints of distinct non-trivial cases
  std::map<std::string, uint64_t> classes;
  std::map<std::string, uint64_t> counters;
  std::vector<std::string> samples;   // actual cases, replay format
  std::string largest_sample;
  std::vector<Failure> failures;
  std::map<std::string, bool> exhaustive; // sub-run name -> enumerated completely
  std::vector<std::string> notes;
  size_t max_samples = 6;
  size_t max_fps = 2000000;

  void klass(const std::string &k, uint64_t n = 1) { classes[k] += n; }
  void count(const std::string &k, uint64_t n = 1) { counters[k] += n; }

  // record one executed case
  void record(const std::string &case_text, bool nontriv, uint64_t fp) {
    evaluations++;
    if (nontriv) {
      nontrivial++;
      if (fps.size() < max_fps) fps.insert(fp);
      // keep first few non-trivial cases and the largest one as samples
      if (samples.size() < max_samples && case_text.size() < 4000) {
        // spread: take 1st, then every case whose fp mod 97 == 0
        if (samples.empty() || (fp % 97) == 0) samples.push_back(case_text);
      }
      if (case_text.size() > largest_sample.size() && case_text.size() < 6000)
        largest_sample = case_text;
    }
  }

  void flush() {
    std::string path = env("VERIF_STATS");
    if (path.empty()) return;
    std::string tmp = path + ".tmp";
    FILE *f = fopen(tmp.c_str(), "w");
    if (!f) return;
    fprintf(f, "{\"evaluations\":%llu,\"nontrivial\":%llu,\n", (unsigned long long)evaluations,
            (unsigned long long)nontrivial);
    fprintf(f, "\"fps\":[");
    bool first = true;
    for (uint64_t h : fps) { fprintf(f, "%s\"%llx\"", first ? "" : ",", (unsigned long long)h); first = false; }
    fprintf(f, "],\n\"classes\":{");
    first = true;
    for (auto &kv : classes) { fprintf(f, "%s\"%s\":%llu", first ? "" : ",", jesc(kv.first).c_str(), (unsigned long long)kv.second); first = false; }
    fprintf(f, "},\n\"counters\":{");
    first = true;
    for (auto &kv : counters) { fprintf(f, "%s\"%s\":%llu", first ? "" : ",", jesc(kv.first).c_str(), (unsigned long long)kv.second); first = false; }
    fprintf(f, "},\n\"exhaustive\":{");
    first = true;
    for (auto &kv : exhaustive) { fprintf(f, "%s\"%s\":%s", first ? "" : ",", jesc(kv.first).c_str(), kv.second ? "true" : "false"); first = false; }
    fprintf(f, "},\n\"samples\":[");
    first = true;
    std::vector<std::string> ss = samples;
    if (!largest_sample.empty() && std::find(ss.begin(), ss.end(), largest_sample) == ss.end()) ss.push_back(largest_sample);
    for (auto &s : ss) { fprintf(f, "%s\"%s\"", first ? "" : ",", jesc(s).c_str()); first = false; }
    fprintf(f, "],\n\"notes\":[");
    first = true;
    for (auto &s : notes) { fprintf(f, "%s\"%s\"", first ? "" : ",", jesc(s).c_str()); first = false; }
    fprintf(f, "],\n\"failures\":[");
    first = true;
    for (auto &x : failures) {
      fprintf(f, "%s{\"sub\":\"%s\",\"verdict\":\"%s\",\"class\":\"%s\",\"replay\":\"%s\"}", first ? "" : ",",
              jesc(x.sub).c_str(), jesc(x.verdict).c_str(), jesc(x.klass).c_str(), jesc(x.replay).c_str());
      first = false;
    }
    fprintf(f, "]}\n");
    fclose(f);
    rename(tmp.c_str(), path.c_str());
  }
};

inline Stats &stats() { static Stats *s = new Stats; return *s; }   // never destroyed: flushed from atexit / death callbacks

// ---- exclusion of known-finding classes ------------------------------------------
inline bool excluded(const std::string &klass) {
  static std::set<std::string> ex = [] {
    std::set<std::string> s;
    std::string e = env("VERIF_EXCLUDE");
    std::stringstream ss(e);
    std::string t;
    while (std::getline(ss, t, ',')) if (!t.empty()) s.insert(t);
    return s;
  }();
  return ex.count(klass) != 0;
}

// ---- replay files ------------------------------------------------------------------
inline std::string replay_dir() {
  std::string d = env("VERIF_REPLAY_DIR", "/tmp");
  return d;
}
inline std::string write_replay(const std::string &tag, const std::string &text) {
  static int seq = 0;
  char name[512];
  snprintf(name, sizeof name, "%s/%s-%d-%d.case", replay_dir().c_str(), tag.c_str(), (int)getpid(), seq++);
  FILE *f = fopen(name, "w");
  if (f) { fwrite(text.data(), 1, text.size(), f); fclose(f); }
  return name;
}
inline std::string read_file(const std::string &path) {
  std::ifstream in(path, std::ios::binary);
  std::stringstream ss;
  ss << in.rdbuf();
  return ss.str();
}

// ---- current-case tracking for crashes (sanitizer aborts, signals) ----------------------
struct Current {
  // fixed buffers: usable from a signal handler / death callback
  char path[512];
  char *text = nullptr;
  size_t len = 0, cap = 0;
  char sub[64];
  int cpu_budget_s = 0;     // > 0: every case may use at most this much user CPU time (one-sided non-termination oracle, see cpu_guard)
  bool replay_mode = false;
};
inline Current &cur() { static Current c; return c; }

inline void cpu_guard_rearm();
inline void set_current_case(const char *sub, const std::string &text) {
  Current &c = cur();
  cpu_guard_rearm();
  if (text.size() + 1 > c.cap) { c.cap = text.size() * 2 + 64; c.text = (char *)realloc(c.text, c.cap); }
  memcpy(c.text, text.data(), text.size());
  c.len = text.size();
  strncpy(c.sub, sub, sizeof c.sub - 1);
}
inline void crash_dump(const char *why, const char *klass = "crash", const char *prefix = "process died: ") {
  static volatile int done = 0;
  if (done) return;
  done = 1;
  Current &c = cur();
  if (c.len) {
    snprintf(c.path, sizeof c.path, "%s/crash-%s-%d.case", replay_dir().c_str(), c.sub, (int)getpid());
    int fd = open(c.path, O_WRONLY | O_CREAT | O_TRUNC, 0644);
    if (fd >= 0) { ssize_t r = write(fd, c.text, c.len); (void)r; close(fd); }
    Failure f;
    f.sub = c.sub; f.verdict = std::string(prefix) + why; f.klass = klass; f.replay = c.path;
    stats().failures.push_back(f);
  }
  stats().flush();
}
inline void death_cb() { crash_dump("sanitizer report / abort"); }
inline void sig_cb(int sig) {
  char b[64];
  snprintf(b, sizeof b, "signal %d", sig);
  crash_dump(b);
  signal(sig, SIG_DFL);
  raise(sig);
}
// Non-termination oracle for the single-threaded, CPU-bound harnesses (tree, hash table/list, INI, socket address): a case that
// normally takes milliseconds and has consumed cpu_budget_s seconds of *user CPU time of this process* (ITIMER_VIRTUAL - machine
// load and waiting do not count) is reported as a failure of class cpu-budget with the current case as replay.
inline void cpu_cb(int) {
  Current &c = cur();
  char msg[256];
  const char *prop = getenv("VERIF_PROP");
  snprintf(msg, sizeof msg, "%s:cpu-budget: the case did not finish within %d s of CPU time (cases of this harness take milliseconds): non-termination or a blow-up of the work per operation", prop ? prop : "C??", c.cpu_budget_s);
  if (c.replay_mode) { printf("REPLAY-FAIL %s\n", msg); fflush(stdout); _exit(1); }
  crash_dump(msg, "cpu-budget", "");
  _exit(86);
}
inline void cpu_guard_rearm() {
  Current &c = cur();
  if (c.cpu_budget_s <= 0) return;
  struct itimerval it; memset(&it, 0, sizeof it); it.it_value.tv_sec = c.cpu_budget_s;
  setitimer(ITIMER_VIRTUAL, &it, NULL);
}
inline void cpu_guard(int seconds) { const char *o = getenv("VERIF_CPU_BUDGET"); if (o && atoi(o) > 0) seconds = atoi(o); cur().cpu_budget_s = seconds; signal(SIGVTALRM, cpu_cb); cpu_guard_rearm(); }
inline void install_crash_capture() {
  if (__sanitizer_set_death_callback) __sanitizer_set_death_callback(death_cb);
  signal(SIGABRT, sig_cb);
  // SIGSEGV/SIGBUS/SIGFPE are taken by ASan when present (-> death callback); install for non-ASan builds
  if (!__sanitizer_set_death_callback) {
    signal(SIGSEGV, sig_cb); signal(SIGBUS, sig_cb); signal(SIGFPE, sig_cb); signal(SIGILL, sig_cb);
  }
}

// Report a (shrunk or not) failing case found by a generated search. Later calls with the
// same sub overwrite earlier ones, so after rapidcheck's shrinking the last one written is
// the minimal case.
inline void report_failure(const std::string &sub, const std::string &case_text,
                           const std::string &verdict, const std::string &klass) {
  auto &fs = stats().failures;
  std::string path;
  for (auto &f : fs)
    if (f.sub == sub) {
      path = f.replay;
      FILE *fp = fopen(path.c_str(), "w");
      if (fp) { fwrite(case_text.data(), 1, case_text.size(), fp); fclose(fp); }
      f.verdict = verdict; f.klass = klass;
      return;
    }
  Failure f;
  f.sub = sub; f.verdict = verdict; f.klass = klass;
  f.replay = write_replay(sub, case_text);
  fs.push_back(f);
}

// ---- tokenising helpers for the line-oriented case format -------------------------------
inline std::vector<std::string> split_lines(const std::string &s) {
  std::vector<std::string> out;
  std::stringstream ss(s);
  std::string l;
  while (std::getline(ss, l)) { if (!l.empty() && l.back() == '\r') l.pop_back(); out.push_back(l); }
  return out;
}
inline std::vector<std::string> split_ws(const std::string &s) {
  std::vector<std::string> out;
  std::stringstream ss(s);
  std::string t;
  while (ss >> t) out.push_back(t);
  return out;
}
inline std::string hex(const std::string &bytes) {
  static const char *d = "0123456789abcdef";
  std::string o;
  for (unsigned char c : bytes) { o += d[c >> 4]; o += d[c & 15]; }
  return o;
}
inline std::string unhex(const std::string &h) {
  std::string o;
  auto v = [](char c) { return c <= '9' ? c - '0' : (c | 32) - 'a' + 10; };
  for (size_t i = 0; i + 1 < h.size(); i += 2) o += (char)(v(h[i]) * 16 + v(h[i + 1]));
  return o;
}

// ---- harness main -------------------------------------------------------------------
// run_generated: runs the generated search (rapidcheck etc.), returns number of failing properties
// run_replay:    runs one case given as text; returns verdict ("" = property held)
inline int harness_main(int argc, char **argv, std::function<int()> run_generated,
                        std::function<std::string(const std::string &)> run_replay) {
  install_crash_capture();
  if (argc >= 3 && !strcmp(argv[1], "--replay")) {
    std::string raw = read_file(argv[2]), text;
    for (auto &l : split_lines(raw)) if (l.empty() || l[0] != '#') text += l + "\n";
    cur().replay_mode = true;
    set_current_case("replay", text);
    std::string v = run_replay(text);
    if (v.empty()) { printf("REPLAY-OK\n"); return 0; }
    printf("REPLAY-FAIL %s\n", v.c_str());
    return 1;
  }
  int bad = run_generated();
  stats().flush();
  return bad ? 1 : 0;
}


// ---- libFuzzer glue (targets built with -DVERIF_FUZZ) ---------------------------------------------
// Every iteration records the decoded case (text replay format); an oracle failure writes the text case,
// flushes the per-process stats and traps, so the driver can replay it through the ordinary harness.
inline void fuzz_init() { install_crash_capture(); atexit([] { stats().flush(); }); }
inline void fuzz_report(const std::string &sub, const std::string &text, const std::string &verdict, const std::string &klass) {
  report_failure(sub, text, verdict, klass);
  stats().flush();
  fprintf(stderr, "FUZZ-ORACLE-FAILURE %s\n", verdict.c_str());
  __builtin_trap();
}
} // namespace vl
